//! cvx: bounded-exhaustive exploration of the real cao-lang implementation.
//!
//!   cvx check  <ID> <quick|thorough>      supervisor: runs workers, writes evidence, exit 0/1/2
//!   cvx worker <ID> <tier> <lo> <hi>      internal
//!   cvx replay <file>                     re-run one recorded violation without the explorer
//!   cvx list

mod checks;
mod lower;
mod progcheck;
mod realrun;

use cvx_core::engine::{self, Check, Tier};

fn usage() -> ! {
    eprintln!("usage: cvx check <ID> <quick|thorough> | cvx replay <file> | cvx list");
    std::process::exit(2)
}

fn find(id: &str) -> &'static dyn Check {
    match checks::registry().into_iter().find(|c| c.id() == id) {
        Some(c) => c,
        None => engine::machinery_error(&format!("unknown check {id}")),
    }
}

fn main() {
    let args: Vec<String> = std::env::args().collect();
    if args.len() < 2 {
        usage();
    }
    let code = match args[1].as_str() {
        "debug-keys" => {
            println!("{:?}", checks::c12::key_alphabet());
            for n in 1..6u64 {
                println!("{} {}", n, checks::c12::real_hash(n));
            }
            0
        }
        "debug-case" => {
            // cvx debug-case <check> <tier> <family> <index>: print the program and both outcomes
            let fams = checks::families_of(&args[2], Tier::parse(&args[3]).unwrap_or(Tier::Quick));
            let fam = fams.iter().find(|f| f.name() == args[4]).expect("family");
            let idx: u64 = args[5].parse().unwrap();
            let m = fam.case(idx);
            println!("{}", cvx_core::shrink::render(&m));
            println!("region: {:?}", cvx_core::region::check_module(&m, cvx_core::region::RegionOpts { inline_array: true }));
            let natives = cvx_core::refsem::default_natives();
            let exp = cvx_core::refsem::run_reference(&m, &natives);
            println!("reference: {} undefined={:?}\n  globals {:?}\n  log {:?}", exp.result, exp.undefined, exp.globals, exp.log);
            let (co, prog) = realrun::compile_real(&m);
            println!("compile: {:?}", co);
            if let Some(p) = prog {
                let got = realrun::run_program(&m, &p, &natives, &fam.cfg(idx).as_ref().map(realrun::RunCfg::from).unwrap_or_default());
                println!("real: {} panic={:?}\n  globals {:?}\n  log {:?}\n  trace {:?}", got.result, got.panic, got.globals, got.log, got.trace);
            }
            0
        }
        "list" => {
            for c in checks::registry() {
                println!("{}", c.id());
            }
            0
        }
        "check" if args.len() == 4 => {
            let tier = Tier::parse(&args[3]).unwrap_or_else(|| usage());
            engine::supervise(find(&args[2]), tier)
        }
        "worker" if args.len() == 6 => {
            let tier = Tier::parse(&args[3]).unwrap_or_else(|| usage());
            let lo: u64 = args[4].parse().unwrap_or_else(|_| usage());
            let hi: u64 = args[5].parse().unwrap_or_else(|_| usage());
            engine::worker_main(find(&args[2]), tier, lo, hi)
        }
        "replay-case" if args.len() == 3 => engine::replay_case_main(find(&args[2])),
        "replay" if args.len() == 3 => {
            let path = std::path::Path::new(&args[2]);
            let s = std::fs::read_to_string(path).unwrap_or_else(|e| engine::machinery_error(&format!("{e}")));
            let v: serde_json::Value = engine::parse_json(&s).unwrap_or_else(|e| engine::machinery_error(&e));
            let id = v["check"].as_str().unwrap_or_else(|| engine::machinery_error("replay file has no check id")).to_string();
            engine::replay_file(find(&id), path)
        }
        _ => usage(),
    };
    std::process::exit(code);
}
