//! Running lowered programs on the real compiler and VM and turning what the host can observe
//! into the same address-free form the reference interpreter produces.

use crate::lower;
use cao_lang::compiler::{compile, CompilationErrorPayload, CompileOptions};
use cao_lang::prelude::*;
use cao_lang::vm::runtime::cao_lang_object::CaoLangObjectBody;
use cao_lang::vm::runtime::RuntimeData;
use cvx_core::ir;
use cvx_core::refsem::{Loc, NativeBehaviour, NativeSpec, Ob, STD_FUNCTIONS};
use std::collections::{BTreeMap, HashMap};
use std::panic::{catch_unwind, AssertUnwindSafe};
use std::rc::Rc;
use std::str::FromStr;

#[derive(Default)]
pub struct Names {
    /// function handle value -> full dotted name
    pub functions: HashMap<u32, String>,
    /// native handle value -> registered name
    pub natives: HashMap<u32, String>,
}

pub fn names_of(m: &ir::Module, natives: &[NativeSpec]) -> Names {
    let mut n = Names::default();
    let user = lower::flatten_names(m);
    let mut i = 0u64;
    for name in user {
        n.functions.insert(Handle::from_u64(i).value(), name);
        i += 1;
    }
    for (f, _) in STD_FUNCTIONS.iter() {
        n.functions.insert(Handle::from_u64(i).value(), format!("std.{f}"));
        i += 1;
    }
    for s in natives {
        n.natives.insert(Handle::from_str(&s.name).unwrap().value(), s.name.clone());
    }
    for s in ["__min", "__max", "__sort", "__to_array"] {
        n.natives.insert(Handle::from_str(s).unwrap().value(), s.to_string());
    }
    n
}

pub fn observe_value(v: Value, names: &Names) -> Ob {
    fn go(v: Value, names: &Names, stack: &mut Vec<usize>) -> Ob {
        match v {
            Value::Nil => Ob::Nil,
            Value::Integer(i) => Ob::Int(i),
            Value::Real(r) => Ob::real(r),
            Value::Object(o) => unsafe {
                let addr = o.as_ptr() as usize;
                match &o.as_ref().body {
                    CaoLangObjectBody::String(s) => Ob::Str(s.as_str().to_string()),
                    CaoLangObjectBody::Table(t) => {
                        if stack.contains(&addr) {
                            return Ob::Cycle;
                        }
                        stack.push(addr);
                        let res = t.iter().map(|(k, v)| (go(*k, names, stack), go(*v, names, stack))).collect();
                        stack.pop();
                        Ob::Table(res)
                    }
                    CaoLangObjectBody::Function(f) => Ob::Func(
                        names
                            .functions
                            .get(&f.handle.value())
                            .cloned()
                            .unwrap_or_else(|| format!("<unknown function handle {}>", f.handle.value())),
                    ),
                    CaoLangObjectBody::NativeFunction(f) => Ob::Native(
                        names
                            .natives
                            .get(&f.handle.value())
                            .cloned()
                            .unwrap_or_else(|| format!("<unknown native handle {}>", f.handle.value())),
                    ),
                    CaoLangObjectBody::Closure(c) => Ob::Closure(c.function.arity as usize),
                    CaoLangObjectBody::Upvalue(_) => Ob::Str("<upvalue object used as a value>".into()),
                }
            },
        }
    }
    go(v, names, &mut Vec::new())
}

pub struct Host {
    pub log: Vec<(String, Vec<Ob>)>,
    pub names: Rc<Names>,
    /// violations noticed by host functions themselves (stack heights around re-entry)
    pub checks: Vec<String>,
}

type HR = Result<Value, ExecutionErrorPayload>;

fn record(vm: &mut Vm<Host>, name: &str, args: &[Value]) {
    let names = vm.auxiliary_data.names.clone();
    let obs = args.iter().map(|a| observe_value(*a, &names)).collect();
    vm.auxiliary_data.log.push((name.to_string(), obs));
}

fn n_log0(vm: &mut Vm<Host>) -> HR {
    record(vm, "log0", &[]);
    Ok(Value::Nil)
}
fn n_log(vm: &mut Vm<Host>, a: Value) -> HR {
    record(vm, "log", &[a]);
    Ok(Value::Nil)
}
fn n_log2(vm: &mut Vm<Host>, a: Value, b: Value) -> HR {
    record(vm, "log2", &[a, b]);
    Ok(Value::Nil)
}
fn n_log3(vm: &mut Vm<Host>, a: Value, b: Value, c: Value) -> HR {
    record(vm, "log3", &[a, b, c]);
    Ok(Value::Nil)
}
fn n_echo(vm: &mut Vm<Host>, a: Value) -> HR {
    record(vm, "echo", &[a]);
    Ok(a)
}
fn n_echo2(vm: &mut Vm<Host>, a: Value, b: Value) -> HR {
    record(vm, "echo2", &[a, b]);
    Ok(a)
}
fn n_fail(vm: &mut Vm<Host>, a: Value) -> HR {
    record(vm, "fail", &[a]);
    Err(ExecutionErrorPayload::invalid_argument("host function failed on purpose"))
}
fn n_pack2(vm: &mut Vm<Host>, a: Value, b: Value) -> HR {
    record(vm, "pack2", &[a, b]);
    let mut t = vm.init_table()?;
    let table = t.as_table_mut().unwrap();
    table.insert(Value::Integer(0), a)?;
    table.insert(Value::Integer(1), b)?;
    Ok(Value::Object(t.into_inner()))
}
/// pushes the arguments, re-enters the script and checks that afterwards the value stack and the
/// call stack are exactly as before the call (the result is handed back separately)
fn reenter(vm: &mut Vm<Host>, name: &str, f: Value, args: &[Value]) -> HR {
    let (h0, d0) = (cao_lang::verif::vm_stack_len(vm), cao_lang::verif::vm_call_depth(vm));
    for a in args {
        vm.stack_push(*a)?;
    }
    let r = vm.run_function(f);
    if r.is_ok() {
        let (h1, d1) = (cao_lang::verif::vm_stack_len(vm), cao_lang::verif::vm_call_depth(vm));
        if h1 != h0 || d1 != d0 {
            vm.auxiliary_data.checks.push(format!("{name}: value stack height {h0} -> {h1}, call depth {d0} -> {d1} across a successful run_function with {} pushed argument(s)", args.len()));
        }
    }
    r
}
fn n_reenter0(vm: &mut Vm<Host>, f: Value) -> HR {
    record(vm, "reenter0", &[f]);
    reenter(vm, "reenter0", f, &[])
}
fn n_reenter1(vm: &mut Vm<Host>, f: Value, a: Value) -> HR {
    record(vm, "reenter1", &[f, a]);
    reenter(vm, "reenter1", f, &[a])
}
fn n_reenter2(vm: &mut Vm<Host>, f: Value, a: Value, b: Value) -> HR {
    record(vm, "reenter2", &[f, a, b]);
    reenter(vm, "reenter2", f, &[a, b])
}

fn n_try_call(vm: &mut Vm<Host>, f: Value) -> HR {
    record(vm, "try_call", &[f]);
    Ok(vm.run_function(f).unwrap_or(Value::Nil))
}

fn n_try_call1(vm: &mut Vm<Host>, f: Value, a: Value) -> HR {
    record(vm, "try_call1", &[f, a]);
    let h0 = cao_lang::verif::vm_stack_len(vm);
    vm.stack_push(a)?;
    match vm.run_function(f) {
        Ok(v) => Ok(v),
        Err(_) => {
            // a value that is not callable does not consume the argument this host pushed: a
            // careful host takes it back
            while cao_lang::verif::vm_stack_len(vm) > h0 {
                vm.stack_pop();
            }
            Ok(Value::Nil)
        }
    }
}

/// like try_call1, but relies on a failed call having consumed its argument
fn n_try_call1_keep(vm: &mut Vm<Host>, f: Value, a: Value) -> HR {
    record(vm, "try_call1_keep", &[f, a]);
    vm.stack_push(a)?;
    Ok(vm.run_function(f).unwrap_or(Value::Nil))
}

pub fn register_natives(vm: &mut Vm<Host>, natives: &[NativeSpec]) {
    for n in natives {
        let r = match (n.name.as_str(), &n.behaviour, n.arity) {
            ("log0", NativeBehaviour::Log, 0) => vm.register_native_function("log0", n_log0 as fn(&mut Vm<Host>) -> HR),
            ("log", NativeBehaviour::Log, 1) => vm.register_native_function("log", into_f1(n_log)),
            ("log2", NativeBehaviour::Log, 2) => vm.register_native_function("log2", into_f2(n_log2)),
            ("log3", NativeBehaviour::Log, 3) => vm.register_native_function("log3", into_f3(n_log3)),
            ("echo", NativeBehaviour::Echo, 1) => vm.register_native_function("echo", into_f1(n_echo)),
            ("echo2", NativeBehaviour::Echo, 2) => vm.register_native_function("echo2", into_f2(n_echo2)),
            ("fail", NativeBehaviour::Fail, 1) => vm.register_native_function("fail", into_f1(n_fail)),
            ("pack2", NativeBehaviour::Pack, 2) => vm.register_native_function("pack2", into_f2(n_pack2)),
            ("try_call", NativeBehaviour::TryReenter, 1) => vm.register_native_function("try_call", into_f1(n_try_call)),
            ("try_call1", NativeBehaviour::TryReenter, 2) => vm.register_native_function("try_call1", into_f2(n_try_call1)),
            ("try_call1_keep", NativeBehaviour::TryReenter, 2) => vm.register_native_function("try_call1_keep", into_f2(n_try_call1_keep)),
            ("reenter0", NativeBehaviour::Reenter, 1) => vm.register_native_function("reenter0", into_f1(n_reenter0)),
            ("reenter1", NativeBehaviour::Reenter, 2) => vm.register_native_function("reenter1", into_f2(n_reenter1)),
            ("reenter2", NativeBehaviour::Reenter, 3) => vm.register_native_function("reenter2", into_f3(n_reenter2)),
            other => cvx_core::engine::machinery_error(&format!("no host implementation for native {other:?}")),
        };
        if let Err(e) = r {
            cvx_core::engine::machinery_error(&format!("cannot register native {}: {e}", n.name));
        }
    }
}

pub fn payload_kind(p: &ExecutionErrorPayload) -> String {
    match p {
        ExecutionErrorPayload::CallStackOverflow => "CallStackOverflow".into(),
        ExecutionErrorPayload::UnexpectedEndOfInput => "UnexpectedEndOfInput".into(),
        ExecutionErrorPayload::ExitCode(_) => "ExitCode".into(),
        ExecutionErrorPayload::InvalidInstruction(_) => "InvalidInstruction".into(),
        ExecutionErrorPayload::InvalidArgument { .. } => "InvalidArgument".into(),
        ExecutionErrorPayload::VarNotFound(_) => "VarNotFound".into(),
        ExecutionErrorPayload::ProcedureNotFound(_) => "ProcedureNotFound".into(),
        ExecutionErrorPayload::Unimplemented => "Unimplemented".into(),
        ExecutionErrorPayload::OutOfMemory => "OutOfMemory".into(),
        ExecutionErrorPayload::MissingArgument => "MissingArgument".into(),
        ExecutionErrorPayload::Timeout => "Timeout".into(),
        ExecutionErrorPayload::TaskFailure { name, error } => format!("TaskFailure({name}:{})", payload_kind(error)),
        ExecutionErrorPayload::Stackoverflow => "Stackoverflow".into(),
        ExecutionErrorPayload::BadReturn { .. } => "BadReturn".into(),
        ExecutionErrorPayload::Unhashable => "Unhashable".into(),
        ExecutionErrorPayload::AssertionError(_) => "AssertionError".into(),
        ExecutionErrorPayload::InvalidUpvalue => "InvalidUpvalue".into(),
        ExecutionErrorPayload::NotClosure => "NotClosure".into(),
    }
}

pub fn compile_kind(p: &CompilationErrorPayload) -> String {
    match p {
        CompilationErrorPayload::Unimplemented(_) => "Unimplemented",
        CompilationErrorPayload::NoMain => "NoMain",
        CompilationErrorPayload::EmptyProgram => "EmptyProgram",
        CompilationErrorPayload::TooManyCards(_) => "TooManyCards",
        CompilationErrorPayload::DuplicateName(_) => "DuplicateName",
        CompilationErrorPayload::DuplicateModule(_) => "DuplicateModule",
        CompilationErrorPayload::MissingSubProgram(_) => "MissingSubProgram",
        CompilationErrorPayload::InvalidJump { .. } => "InvalidJump",
        CompilationErrorPayload::InternalError => "InternalError",
        CompilationErrorPayload::TooManyLocals => "TooManyLocals",
        CompilationErrorPayload::TooManyUpvalues => "TooManyUpvalues",
        CompilationErrorPayload::BadVariableName(_) => "BadVariableName",
        CompilationErrorPayload::EmptyVariable => "EmptyVariable",
        CompilationErrorPayload::BadFunctionName(_) => "BadFunctionName",
        CompilationErrorPayload::RecursionLimitReached(_) => "RecursionLimitReached",
        CompilationErrorPayload::BadImport(_) => "BadImport",
        CompilationErrorPayload::AmbigousImport(_) => "AmbigousImport",
        CompilationErrorPayload::SuperLimitReached => "SuperLimitReached",
    }
    .to_string()
}

pub fn loc_of(t: &Trace) -> Loc {
    Loc {
        ns: t.namespace.iter().map(|s| s.to_string()).collect(),
        function: t.index.function,
        path: t.index.card_index.indices.iter().copied().collect(),
    }
}

#[derive(Clone, Debug)]
pub struct RunCfg {
    pub max_instr: u64,
    pub mem_limit: usize,
    pub stack: usize,
    pub call_stack: usize,
}

impl Default for RunCfg {
    fn default() -> Self {
        RunCfg { max_instr: 100_000, mem_limit: 400 * 1024, stack: 256, call_stack: 256 }
    }
}

impl From<&cvx_core::gen_basic::CfgLite> for RunCfg {
    fn from(c: &cvx_core::gen_basic::CfgLite) -> Self {
        RunCfg { max_instr: c.max_instr, mem_limit: c.mem_limit, stack: c.stack, call_stack: c.call_stack }
    }
}

#[derive(Clone, Debug)]
pub enum CompileOutcome {
    Ok,
    Err { kind: String, loc: Option<Loc> },
    Panic(String),
}

#[derive(Clone, Debug, Default)]
pub struct RealOutcome {
    /// "Ok", the error kind, or "PANIC"
    pub result: String,
    pub trace: Vec<Loc>,
    pub globals: BTreeMap<String, Ob>,
    pub log: Vec<(String, Vec<Ob>)>,
    pub panic: Option<String>,
    pub instr_count: u64,
    pub clear_panic: Option<String>,
    pub host_checks: Vec<String>,
}

pub fn compile_real(m: &ir::Module) -> (CompileOutcome, Option<CaoCompiledProgram>) {
    let lowered = lower::module(m);
    match catch_unwind(AssertUnwindSafe(|| compile(lowered, CompileOptions::new()))) {
        Ok(Ok(p)) => (CompileOutcome::Ok, Some(p)),
        Ok(Err(e)) => (CompileOutcome::Err { kind: compile_kind(&e.payload), loc: e.loc.as_ref().map(loc_of) }, None),
        Err(p) => (CompileOutcome::Panic(cvx_core::engine::panic_message(&p)), None),
    }
}

pub fn new_vm(m: &ir::Module, natives: &[NativeSpec], cfg: &RunCfg) -> Vm<'static, Host> {
    let names = Rc::new(names_of(m, natives));
    let mut vm = Vm::new(Host { log: Vec::new(), names, checks: Vec::new() }).expect("Vm::new");
    vm.max_instr = cfg.max_instr;
    if cfg.mem_limit != 400 * 1024 || cfg.stack != 256 || cfg.call_stack != 256 {
        vm.runtime_data = RuntimeData::new(cfg.mem_limit, cfg.stack, cfg.call_stack).expect("RuntimeData::new");
    }
    register_natives(&mut vm, natives);
    vm
}

/// everything the host can see after a run
pub fn observe_run(vm: &Vm<Host>, program: &CaoCompiledProgram, names: &[String], r: &Result<(), ExecutionError>) -> RealOutcome {
    let mut out = RealOutcome::default();
    match r {
        Ok(()) => out.result = "Ok".into(),
        Err(e) => {
            out.result = payload_kind(&e.payload);
            out.trace = e.trace.iter().map(loc_of).collect();
        }
    }
    let nm = vm.auxiliary_data.names.clone();
    for n in names {
        if let Some(v) = vm.read_var_by_name(n, &program.variables) {
            out.globals.insert(n.clone(), observe_value(v, &nm));
        }
    }
    out.log = vm.auxiliary_data.log.clone();
    out.host_checks = vm.auxiliary_data.checks.clone();
    out.instr_count = cao_lang::verif::instr_count();
    out
}

/// compile result already at hand: run it on a fresh VM
pub fn run_program(m: &ir::Module, program: &CaoCompiledProgram, natives: &[NativeSpec], cfg: &RunCfg) -> RealOutcome {
    let vm = new_vm(m, natives, cfg);
    run_on(vm, m, program)
}

/// like `run_program`, but the instruction budget is configured through the public builder
/// (`Vm::with_max_iter`) instead of the field
pub fn run_program_builder(m: &ir::Module, program: &CaoCompiledProgram, natives: &[NativeSpec], cfg: &RunCfg) -> RealOutcome {
    let n = cfg.max_instr;
    match catch_unwind(AssertUnwindSafe(|| new_vm(m, natives, &RunCfg { max_instr: 1, ..cfg.clone() }).with_max_iter(n))) {
        Ok(vm) => run_on(vm, m, program),
        Err(p) => RealOutcome { result: "PANIC".into(), panic: Some(format!("while configuring the budget: {}", cvx_core::engine::panic_message(&p))), ..Default::default() },
    }
}

pub fn run_on(mut vm: Vm<'static, Host>, m: &ir::Module, program: &CaoCompiledProgram) -> RealOutcome {
    let names = m.mentioned_names();
    cao_lang::verif::reset_instr_count();
    let r = catch_unwind(AssertUnwindSafe(|| vm.run(program)));
    match r {
        Ok(r) => {
            let mut out = match catch_unwind(AssertUnwindSafe(|| observe_run(&vm, program, &names, &r))) {
                Ok(o) => o,
                Err(p) => {
                    std::mem::forget(vm);
                    return RealOutcome { result: "PANIC".into(), panic: Some(format!("while observing: {}", cvx_core::engine::panic_message(&p))), ..Default::default() };
                }
            };
            // clearing and dropping the VM must return as well (catches double frees)
            match catch_unwind(AssertUnwindSafe(move || {
                vm.clear();
                drop(vm);
            })) {
                Ok(()) => {}
                Err(p) => out.clear_panic = Some(cvx_core::engine::panic_message(&p)),
            }
            out
        }
        Err(p) => {
            let log = vm.auxiliary_data.log.clone();
            std::mem::forget(vm);
            RealOutcome { result: "PANIC".into(), panic: Some(cvx_core::engine::panic_message(&p)), log, instr_count: cao_lang::verif::instr_count(), ..Default::default() }
        }
    }
}
