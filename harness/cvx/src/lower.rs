//! Lowering of the harness IR to cao-lang's public `Module` / `Card` types.

use cao_lang::compiler::{
    CallNode, Card, CardBody, CompositeCard, DynamicJump, ForEach, Function, Module, Repeat, SetVar, StaticJump, UnaryExpression,
};
use cvx_core::ir::{self, BinOp, C};

pub fn card(c: &C) -> Card {
    let body = match c {
        C::Bin(op, a, b) => {
            let e = Box::new([card(a), card(b)]);
            match op {
                BinOp::Add => CardBody::Add(e),
                BinOp::Sub => CardBody::Sub(e),
                BinOp::Mul => CardBody::Mul(e),
                BinOp::Div => CardBody::Div(e),
                BinOp::Less => CardBody::Less(e),
                BinOp::LessOrEq => CardBody::LessOrEq(e),
                BinOp::Equals => CardBody::Equals(e),
                BinOp::NotEquals => CardBody::NotEquals(e),
                BinOp::And => CardBody::And(e),
                BinOp::Or => CardBody::Or(e),
                BinOp::Xor => CardBody::Xor(e),
            }
        }
        C::Not(a) => CardBody::Not(UnaryExpression::new(card(a))),
        C::Return(a) => CardBody::Return(UnaryExpression::new(card(a))),
        C::Nil => CardBody::ScalarNil,
        C::CreateTable => CardBody::CreateTable,
        C::Abort => CardBody::Abort,
        C::Len(a) => CardBody::Len(UnaryExpression::new(card(a))),
        C::SetProperty(v, t, k) => CardBody::SetProperty(Box::new([card(v), card(t), card(k)])),
        C::GetProperty(t, k) => CardBody::GetProperty(Box::new([card(t), card(k)])),
        C::Int(i) => CardBody::ScalarInt(*i),
        C::Float(f) => CardBody::ScalarFloat(*f),
        C::Str(s) => CardBody::StringLiteral(s.clone()),
        C::CallNative(n, args) => CardBody::CallNative(Box::new(CallNode {
            name: n.clone(),
            args: args.iter().map(card).collect::<Vec<_>>().into(),
        })),
        C::IfTrue(c, b) => CardBody::IfTrue(Box::new([card(c), card(b)])),
        C::IfFalse(c, b) => CardBody::IfFalse(Box::new([card(c), card(b)])),
        C::IfElse(c, t, e) => CardBody::IfElse(Box::new([card(c), card(t), card(e)])),
        C::Call(n, args) => CardBody::Call(Box::new(StaticJump {
            args: args.iter().map(card).collect::<Vec<_>>().into(),
            function_name: n.clone(),
        })),
        C::Function(n) => CardBody::Function(n.clone()),
        C::NativeFunction(n) => CardBody::NativeFunction(n.clone()),
        C::SetGlobal(n, v) => CardBody::SetGlobalVar(Box::new(SetVar { name: n.clone(), value: card(v) })),
        C::SetVar(n, v) => CardBody::SetVar(Box::new(SetVar { name: n.clone(), value: card(v) })),
        C::ReadVar(n) => CardBody::ReadVar(n.clone()),
        C::Repeat { n, i, body } => CardBody::Repeat(Box::new(Repeat { i: i.clone(), n: card(n), body: card(body) })),
        C::While(c, b) => CardBody::While(Box::new([card(c), card(b)])),
        C::ForEach { i, k, v, iterable, body } => CardBody::ForEach(Box::new(ForEach {
            i: i.clone(),
            k: k.clone(),
            v: v.clone(),
            iterable: Box::new(card(iterable)),
            body: Box::new(card(body)),
        })),
        C::Composite(ty, cards) => CardBody::CompositeCard(Box::new(CompositeCard { ty: ty.clone(), cards: cards.iter().map(card).collect() })),
        C::DynCall(f, args) => CardBody::DynamicCall(Box::new(DynamicJump {
            args: args.iter().map(card).collect::<Vec<_>>().into(),
            function: card(f),
        })),
        C::Get(t, i) => CardBody::Get(Box::new([card(t), card(i)])),
        C::Append(v, t) => CardBody::AppendTable(Box::new([card(v), card(t)])),
        C::PopTable(t) => CardBody::PopTable(UnaryExpression::new(card(t))),
        C::Array(items) => CardBody::Array(items.iter().map(card).collect()),
        C::Closure(params, cards) => CardBody::Closure(Box::new(function_parts(params, cards))),
        C::Comment(s) => CardBody::Comment(s.clone()),
    };
    body.into()
}

fn function_parts(params: &[String], cards: &[C]) -> Function {
    Function {
        arguments: params.to_vec(),
        cards: cards.iter().map(card).collect(),
    }
}

pub fn function(f: &ir::Func) -> Function {
    function_parts(&f.params, &f.cards)
}

pub fn module(m: &ir::Module) -> Module {
    Module {
        submodules: m.submodules.iter().map(|(n, s)| (n.clone(), module(s))).collect(),
        functions: m.functions.iter().map(|(n, f)| (n.clone(), function(f))).collect(),
        imports: m.imports.clone(),
    }
}

/// full dotted names of the user functions in the order the compiler flattens them (root
/// functions, then every submodule depth-first); the compiler numbers function handles in this
/// order and appends the injected `std` module last.
pub fn flatten_names(m: &ir::Module) -> Vec<String> {
    fn go(m: &ir::Module, ns: &mut Vec<String>, out: &mut Vec<String>) {
        for (n, _) in m.functions.iter() {
            let mut p = ns.clone();
            p.push(n.clone());
            out.push(p.join("."));
        }
        for (n, s) in m.submodules.iter() {
            ns.push(n.clone());
            go(s, ns, out);
            ns.pop();
        }
    }
    let mut out = Vec::new();
    go(m, &mut Vec::new(), &mut out);
    out
}
