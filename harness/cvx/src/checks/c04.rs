//! C04 — compiling and running are total: errors are values, never crashes or hangs.
//!
//! Every program of the C01 families plus the compile-half families (names, imports, depths,
//! nesting, child kinds) and the exhaustion families under swept host configurations is compiled
//! and (if it compiled and is well-scoped) run in an isolated worker; a panic, an abort/signal or
//! a watchdog expiry is the violation. Clearing and dropping the VM afterwards must return too.

use crate::progcheck::{self, fnv, Judge, JR};
use crate::realrun::{self, CompileOutcome, RunCfg};
use cvx_core::engine::{Check, CheckInfo, ChunkResult, Tier, Violation};
use cvx_core::gen_basic::{CfgLite, Family};
use cvx_core::gen_c04::{FCyclic, FExhaust, FKinds, FManyUpvalues, FNames, FOddKeys, FSelfRef, FShape, FSortMixed};
use cvx_core::ir::Module;
use cvx_core::refsem;
use cvx_core::region::{self, RegionOpts};
use serde_json::Value as J;
use std::sync::OnceLock;

pub struct C04;

pub struct TotalJudge;

fn class_of(msg: &str) -> String {
    msg.chars().filter(|c| !c.is_ascii_digit()).take(60).collect()
}

impl Judge for TotalJudge {
    fn property(&self) -> &'static str {
        "C04"
    }
    fn judge(&self, m: &Module, cfg: Option<&CfgLite>) -> JR {
        // the front-end: the module as JSON and YAML text through the crate's loaders; whatever
        // they admit is compiled as loaded (must return), what they reject (nesting beyond the
        // loaders' recursion limit) is outside the quantifier
        let loaded = match loader_pass(m) {
            Ok(tag) => tag,
            Err(f) => return f,
        };
        let (co, prog) = realrun::compile_real(m);
        let prog = match (co, prog) {
            (CompileOutcome::Ok, Some(p)) => p,
            (CompileOutcome::Err { kind, .. }, _) => return JR::Pass { outcome: format!("compile-err:{kind}{loaded}"), fingerprint: fnv(&kind) },
            (CompileOutcome::Panic(p), _) => return JR::Fail { class: format!("compile-panic:{}", class_of(&p)), what: format!("the compiler panicked: {p}") },
            _ => return JR::Fail { class: "compile-none".into(), what: "no program".into() },
        };
        if region::check_module(m, RegionOpts { inline_array: true }).is_err() {
            return JR::Pass { outcome: format!("compiled, not well-scoped: not run{loaded}"), fingerprint: 1 };
        }
        let natives = refsem::default_natives();
        let got = realrun::run_program(m, &prog, &natives, &cfg.map(RunCfg::from).unwrap_or_default());
        if let Some(p) = &got.panic {
            return JR::Fail { class: format!("run-panic:{}", class_of(p)), what: format!("the run panicked: {p}") };
        }
        if let Some(p) = &got.clear_panic {
            return JR::Fail { class: format!("clear-panic:{}", class_of(p)), what: format!("clearing / dropping the VM after the run panicked: {p}") };
        }
        JR::Pass { outcome: format!("{}{loaded}", got.result), fingerprint: fnv(&format!("{}{:?}", got.result, cfg)) }
    }
}

/// JSON / YAML text -> loader -> compile; Ok(tag for the outcome histogram) or the failure
fn loader_pass(m: &Module) -> Result<&'static str, JR> {
    use cao_lang::prelude::{compile, CompileOptions};
    let lowered = crate::lower::module(m);
    let mut rejected = 0;
    for fmt in ["json", "yaml"] {
        let text = std::panic::catch_unwind(std::panic::AssertUnwindSafe(|| match fmt {
            "json" => serde_json::to_string(&lowered).map_err(|e| e.to_string()),
            _ => serde_yaml::to_string(&lowered).map_err(|e| e.to_string()),
        }));
        let text = match text {
            Ok(Ok(t)) => t,
            // a tree the writer itself refuses is not an input of the loader
            Ok(Err(_)) => {
                rejected += 1;
                continue;
            }
            Err(p) => return Err(JR::Fail { class: format!("{fmt}-writer-panic"), what: format!("writing the module as {fmt} panicked: {}", cvx_core::engine::panic_message(&p)) }),
        };
        let parsed = std::panic::catch_unwind(|| match fmt {
            "json" => serde_json::from_str::<cao_lang::compiler::Module>(&text).map_err(|e| e.to_string()),
            _ => serde_yaml::from_str::<cao_lang::compiler::Module>(&text).map_err(|e| e.to_string()),
        });
        let parsed = match parsed {
            Ok(Ok(p)) => p,
            Ok(Err(_)) => {
                rejected += 1;
                continue;
            }
            Err(p) => return Err(JR::Fail { class: format!("{fmt}-loader-panic"), what: format!("loading the module from {fmt} panicked: {}", cvx_core::engine::panic_message(&p)) }),
        };
        if let Err(p) = std::panic::catch_unwind(std::panic::AssertUnwindSafe(|| compile(parsed, CompileOptions::new()).map(|_| ()).map_err(|_| ()))) {
            return Err(JR::Fail { class: format!("compile-panic:{}", class_of(&cvx_core::engine::panic_message(&p))), what: format!("the compiler panicked on the module as loaded from {fmt}: {}", cvx_core::engine::panic_message(&p)) });
        }
    }
    Ok(match rejected {
        0 => "",
        1 => " [one loader rejects this tree]",
        _ => " [both loaders reject this tree]",
    })
}

static QUICK: OnceLock<Vec<Box<dyn Family>>> = OnceLock::new();
static THOROUGH: OnceLock<Vec<Box<dyn Family>>> = OnceLock::new();

pub fn families(tier: Tier) -> &'static Vec<Box<dyn Family>> {
    use cvx_core::gen_basic::{FExpr, FNest, FStmt};
    use cvx_core::gen_more::{FArray, FCall, FLimits};
    match tier {
        Tier::Quick => QUICK.get_or_init(|| {
            vec![
                Box::new(FNames),
                Box::new(FShape::quick()),
                Box::new(FKinds),
                Box::new(FExhaust { thorough: false }),
                Box::new(FCyclic),
                Box::new(FOddKeys),
                Box::new(FSelfRef),
                Box::new(FManyUpvalues),
                Box::new(FSortMixed),
                Box::new(FExpr::new()),
                Box::new(FStmt::new(1)),
                Box::new(FStmt::new(2)),
                Box::new(FNest::new()),
                Box::new(FLimits::quick()),
                Box::new(FCall),
                Box::new(FArray),
            ]
        }),
        Tier::Thorough => THOROUGH.get_or_init(|| {
            vec![
                Box::new(FNames),
                Box::new(FShape::thorough()),
                Box::new(FKinds),
                Box::new(FExhaust { thorough: true }),
                Box::new(FCyclic),
                Box::new(FOddKeys),
                Box::new(FSelfRef),
                Box::new(FManyUpvalues),
                Box::new(FSortMixed),
                Box::new(FExpr::new()),
                Box::new(FStmt::new(1)),
                Box::new(FStmt::new(2)),
                Box::new(FNest::new()),
                Box::new(FLimits::thorough()),
                Box::new(FCall),
                Box::new(FArray),
                Box::new(FStmt::new(3)),
            ]
        }),
    }
}

static JUDGE: TotalJudge = TotalJudge;

impl Check for C04 {
    fn id(&self) -> &'static str {
        "C04"
    }
    fn info(&self, tier: Tier) -> CheckInfo {
        let fams = families(tier);
        CheckInfo {
            rule: "front-end tie: every module is also written as JSON and YAML text and read back through the crate's serde loaders; what a loader admits is compiled as loaded (must return), what both reject (nesting beyond the loaders' recursion limit) is tagged in the outcome histogram. compile half: F-names (function x module x variable names from {\"\",a,a.b,super,main,é,std,1x,f} x 10 import strings incl. too many super. and malformed ones x import position), F-shape (submodule depth 0..70, 16 card kinds nested to depth up to 60/120, locals 0..260, globals 0..64/600, arity x supplied arguments x duplicate/empty parameter names, closure nesting 0..9), F-kinds (27 parent card kinds x child slot x 18 child kind classes, not restricted to well-scoped input); run half: F-exhaust (14 programs: recursion, temporaries, function/native/closure/string/table values filling the stack, locals, allocation churn, host re-entry, sort/min, long keys x sizes x host configurations: value-stack size 1..8, call-stack size 0..3, memory limit 0..4096, budget 0..50), F-cyclic (self-containing tables in Equals/Less/hash/Len/sorted/Add) and every C01 family incl. the cases C01 does not compare. Verdict per case: compile returns Ok/Err, run returns Ok/Err, clear+drop return; panic / abort / signal / watchdog expiry = violation. 'states' = distinct (result kind, configuration) per chunk".into(),
            bound: format!("families {:?}, {} cases", fams.iter().map(|f| format!("{}={}", f.name(), f.len())).collect::<Vec<_>>(), progcheck::total_cases(fams)),
            exhaustive: true,
            assumptions: vec![
                "only programs that compile and are well-scoped are run (the statement's run half); value-stack size 0 is rejected by an assertion in ValueStack::new and is not a configuration".into(),
                "per-unit watchdog 30 s for 1000 cases whose budgeted work is below a millisecond each".into(),
            ],
            explanation: "workers are separate processes; a dying or hanging worker is re-run in trace mode to pin the exact case".into(),
        }
    }
    fn units(&self, tier: Tier) -> u64 {
        progcheck::units_of(families(tier))
    }
    fn chunk(&self, _tier: Tier) -> u64 {
        2
    }
    fn unit_timeout_s(&self, _tier: Tier) -> u64 {
        30
    }
    fn run_unit(&self, tier: Tier, unit: u64, out: &mut ChunkResult) {
        progcheck::run_unit(&JUDGE, families(tier), tier, unit, out)
    }
    fn replay(&self, case: &J) -> Option<Violation> {
        progcheck::replay(&JUDGE, case)
    }
    fn crash_violation(&self, _tier: Tier, unit: u64, how: &str, last_case: Option<J>) -> Violation {
        // key by the program that was executing, not by the unit
        let case = last_case.unwrap_or_else(|| serde_json::json!({"unit": unit}));
        let prog = serde_json::from_value::<Module>(case["module"].clone()).ok().map(|m| cvx_core::shrink::render(&m)).unwrap_or_default();
        let prog_short: String = prog.chars().take(300).collect();
        Violation::new("C04", format!("{how}:{:016x}", fnv(&format!("{}{}", case["module"], case["cfg"]))), format!("worker {how} while executing: {prog_short}"), case)
    }
}
