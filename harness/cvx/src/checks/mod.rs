pub mod c01;
pub mod c02;
pub mod c03;
pub mod c04;
pub mod c05;
pub mod c06;
pub mod c07;
pub mod c08;
pub mod c09;
pub mod c10;
pub mod c11;
pub mod c12;
pub mod c13;
pub mod c14;
pub mod c15;
pub mod c16;
pub mod c17;
pub mod c18;
pub mod c19;

use cvx_core::engine::Check;

pub fn registry() -> Vec<&'static dyn Check> {
    vec![&c01::C01, &c02::C02, &c03::C03, &c04::C04, &c05::C05, &c06::C06, &c07::C07, &c08::C08, &c09::C09, &c10::C10, &c11::C11, &c12::C12, &c13::C13, &c14::C14, &c15::C15, &c16::C16, &c17::C17, &c18::C18, &c19::C19]
}

/// program families of a check (debugging aid)
pub fn families_of(id: &str, tier: cvx_core::engine::Tier) -> &'static Vec<Box<dyn cvx_core::gen_basic::Family>> {
    match id {
        "C04" => c04::families(tier),
        "C06" => c06::families(tier),
        "C08" => c08::families(tier),
        "C09" => c09::families(tier),
        "C15" => c15::families(tier),
        "C18" => c18::families(tier),
        _ => c01::families(tier),
    }
}
