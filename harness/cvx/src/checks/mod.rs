pub mod c01;
pub mod c04;
pub mod c12;
pub mod c13;
pub mod c14;

use cvx_core::engine::Check;

pub fn registry() -> Vec<&'static dyn Check> {
    vec![&c01::C01, &c04::C04, &c12::C12, &c13::C13, &c14::C14]
}
