//! C12 — CaoHashMap is a faithful map.
//!
//! Explicit-state BFS over operation histories of the real map (three allocators), compared with a
//! reference map after every step; drop ledger for keys and values; plus fault enumeration: for
//! every explored history and every allocation index in it, that allocation fails.

use cao_lang::collections::hash_map::CaoHashMap;
use cao_lang::verif::{AllocError, AllocProxy, Allocator, CaoLangAllocator, SysAllocator};
use cvx_core::engine::{Check, CheckInfo, ChunkResult, Tier, Violation};
use cvx_core::hist::{self, BfsCfg, Diverge, HistSystem};
use serde::{Deserialize, Serialize};
use serde_json::{json, Value as J};
use std::alloc::Layout;
use std::cell::{Cell, RefCell};
use std::collections::BTreeMap;
use std::hash::{Hash, Hasher};
use std::ptr::NonNull;
use std::rc::Rc;

pub struct C12;

/// u64 keys whose FNV-1a/32 hash (as computed by the crate's hasher over the 8 LE bytes) is 0,
/// the value the map reserves for "empty bucket". Found by exhaustive search; validated at start.
pub const ZERO_HASH_KEYS: [u64; 2] = [3291555020, 3416215008];

pub fn real_hash(k: u64) -> u64 {
    CaoHashMap::<u64, ()>::verif_hash(&k)
}

fn fib(h: u64) -> usize {
    h.wrapping_mul(2654435769) as usize
}

/// The key alphabet, chosen with the *real* hasher. The home bucket of a key is
/// `(hash * 2654435769) % capacity`; the multiplier is divisible by 3, so only residues that are
/// multiples of 3 occur for capacities divisible by 3.
///  0..3: `x % 36 == 15`: home = last bucket at capacity 4, bucket 3 at capacity 6 (of 6), bucket 6
///        at capacity 9: four keys with one home bucket whose probe chain wraps around the end;
///  4,5:  `x % 36 == 0`: home bucket 0 at capacities 3,4,6,9 (collide with the wrapped chain);
///  6:    an ordinary key; 7: a key whose raw hash is the reserved value 0 (if one still exists).
pub fn key_alphabet() -> Vec<u64> {
    let mut chain = Vec::new();
    let mut first = Vec::new();
    let mut n = 1u64;
    while (chain.len() < 4 || first.len() < 2) && n < 5_000_000 {
        let x = fib(real_hash(n));
        if x % 36 == 15 && chain.len() < 4 {
            chain.push(n);
        } else if x % 36 == 0 && first.len() < 2 {
            first.push(n);
        }
        n += 1;
    }
    let mut keys = chain;
    keys.extend(first);
    keys.push(1_000_003);
    for z in ZERO_HASH_KEYS {
        if CaoHashMap::<u64, ()>::verif_raw_hash(&z) == 0 {
            keys.push(z);
            break;
        }
    }
    keys
}

// ------------------------------------------------------------------------------------------------
// tracked key / value types
// ------------------------------------------------------------------------------------------------

pub type Ledger = Rc<RefCell<Vec<u32>>>;

fn new_id(ledger: *const RefCell<Vec<u32>>) -> usize {
    unsafe {
        let mut l = (*ledger).borrow_mut();
        l.push(0);
        l.len() - 1
    }
}

pub struct TK {
    pub k: u64,
    pub id: usize,
    ledger: *const RefCell<Vec<u32>>,
}
impl Hash for TK {
    fn hash<H: Hasher>(&self, state: &mut H) {
        self.k.hash(state)
    }
}
impl PartialEq for TK {
    fn eq(&self, o: &Self) -> bool {
        self.k == o.k
    }
}
impl Eq for TK {}
impl Drop for TK {
    fn drop(&mut self) {
        unsafe { (*self.ledger).borrow_mut()[self.id] += 1 }
    }
}
impl Clone for TK {
    fn clone(&self) -> Self {
        TK {
            k: self.k,
            id: new_id(self.ledger),
            ledger: self.ledger,
        }
    }
}

pub struct TV {
    pub v: u8,
    pub id: usize,
    ledger: *const RefCell<Vec<u32>>,
}
impl Drop for TV {
    fn drop(&mut self) {
        unsafe { (*self.ledger).borrow_mut()[self.id] += 1 }
    }
}
impl Clone for TV {
    fn clone(&self) -> Self {
        TV {
            v: self.v,
            id: new_id(self.ledger),
            ledger: self.ledger,
        }
    }
}

// ------------------------------------------------------------------------------------------------
// fault-injecting allocator
// ------------------------------------------------------------------------------------------------

#[derive(Default)]
pub struct FaultState {
    pub count: Cell<u64>,
    pub fail_at: Cell<Option<u64>>,
    pub failed: Cell<bool>,
    pub outstanding: RefCell<BTreeMap<usize, (usize, usize)>>,
    pub layout_errors: RefCell<Vec<String>>,
}

#[derive(Clone, Default)]
pub struct FaultAlloc(pub Rc<FaultState>);

impl Allocator for FaultAlloc {
    unsafe fn alloc(&self, l: Layout) -> Result<NonNull<u8>, AllocError> {
        let n = self.0.count.get();
        self.0.count.set(n + 1);
        if self.0.fail_at.get() == Some(n) {
            self.0.failed.set(true);
            return Err(AllocError::OutOfMemory);
        }
        // zero-sized requests get a dangling, well-aligned pointer like the std collections do
        let p = if l.size() == 0 {
            l.align() as *mut u8
        } else {
            std::alloc::alloc(l)
        };
        let p = NonNull::new(p).ok_or(AllocError::OutOfMemory)?;
        if l.size() != 0 {
            self.0
                .outstanding
                .borrow_mut()
                .insert(p.as_ptr() as usize, (l.size(), l.align()));
        }
        Ok(p)
    }
    unsafe fn dealloc(&self, p: NonNull<u8>, l: Layout) {
        if l.size() == 0 {
            return;
        }
        match self.0.outstanding.borrow_mut().remove(&(p.as_ptr() as usize)) {
            Some((s, a)) if s == l.size() && a == l.align() => std::alloc::dealloc(p.as_ptr(), l),
            Some((s, a)) => {
                self.0.layout_errors.borrow_mut().push(format!(
                    "dealloc with layout ({},{}) of a block allocated with ({s},{a})",
                    l.size(),
                    l.align()
                ));
                std::alloc::dealloc(p.as_ptr(), Layout::from_size_align(s, a).unwrap());
            }
            None => self
                .0
                .layout_errors
                .borrow_mut()
                .push("dealloc of a pointer that is not outstanding (double free?)".to_string()),
        }
    }
}

// ------------------------------------------------------------------------------------------------

#[derive(Clone, Debug, Serialize, Deserialize)]
pub enum Op {
    Insert(usize, u8),
    InsertHint(usize, u8),
    Remove(usize),
    RemoveHint(usize),
    Entry(usize, u8),
    GetMutSet(usize, u8),
    Reserve(usize),
    Clear,
    CloneSwap,
}

#[derive(Clone, Copy, Debug, PartialEq, Eq)]
pub enum AllocKind {
    Sys,
    Proxy,
    Fault,
}

pub trait MkAlloc: Allocator + Clone + 'static {
    fn mk(st: &Rc<FaultState>) -> Self;
}
impl MkAlloc for SysAllocator {
    fn mk(_: &Rc<FaultState>) -> Self {
        SysAllocator
    }
}
impl MkAlloc for AllocProxy {
    fn mk(_: &Rc<FaultState>) -> Self {
        CaoLangAllocator::new(std::ptr::null_mut(), 1 << 30).into()
    }
}
impl MkAlloc for FaultAlloc {
    fn mk(st: &Rc<FaultState>) -> Self {
        FaultAlloc(st.clone())
    }
}

pub struct Sys<A: MkAlloc> {
    pub keys: Vec<u64>,
    pub init_cap: usize,
    pub with_clone: bool,
    /// allocation index that fails (Fault allocator only)
    pub fail_at: Option<u64>,
    pub _m: std::marker::PhantomData<fn() -> A>,
}

pub struct Inst<A: MkAlloc> {
    real: Option<CaoHashMap<TK, TV, A>>,
    /// key -> (value, value id)
    model: BTreeMap<u64, (u8, usize)>,
    ledger: Ledger,
    pub fault: Rc<FaultState>,
    /// keys whose presence/value is unknown after a failed operation (resolved by observation)
    construct_failed: bool,
}

fn dv(key: &str, what: String) -> Diverge {
    (key.to_string(), what)
}

impl<A: MkAlloc> Inst<A> {
    fn lp(&self) -> *const RefCell<Vec<u32>> {
        Rc::as_ptr(&self.ledger)
    }
    fn tk(&self, k: u64) -> TK {
        TK {
            k,
            id: new_id(self.lp()),
            ledger: self.lp(),
        }
    }
    fn tv(&self, v: u8) -> TV {
        TV {
            v,
            id: new_id(self.lp()),
            ledger: self.lp(),
        }
    }
    fn no_double_drop(&self, when: &str) -> Result<(), Diverge> {
        for (id, d) in self.ledger.borrow().iter().enumerate() {
            if *d > 1 {
                return Err(dv("drop/double", format!("{when}: object #{id} dropped {d} times")));
            }
        }
        Ok(())
    }
    /// after a failed (Err) operation on key `k`: adopt whatever the map now holds for `k`
    fn adopt(&mut self, k: u64) {
        let probe = self.tk(k);
        let cur = self.real.as_ref().unwrap().get(&probe).map(|v| (v.v, v.id));
        match cur {
            Some(x) => {
                self.model.insert(k, x);
            }
            None => {
                self.model.remove(&k);
            }
        }
    }
}

impl<A: MkAlloc> HistSystem for Sys<A> {
    type Op = Op;
    type Inst = Inst<A>;

    fn fresh(&self) -> Inst<A> {
        let fault = Rc::new(FaultState::default());
        fault.fail_at.set(self.fail_at);
        let a = A::mk(&fault);
        let real = CaoHashMap::with_capacity_in(self.init_cap, a);
        let construct_failed = real.is_err();
        Inst {
            real: real.ok(),
            model: BTreeMap::new(),
            ledger: Rc::new(RefCell::new(Vec::new())),
            fault,
            construct_failed,
        }
    }

    fn ops(&self, inst: &Inst<A>) -> Vec<Op> {
        if inst.construct_failed {
            return vec![];
        }
        let mut ops = Vec::new();
        for k in 0..self.keys.len() {
            ops.push(Op::Insert(k, 1));
            ops.push(Op::Insert(k, 2));
            ops.push(Op::Remove(k));
            ops.push(Op::Entry(k, 1));
            ops.push(Op::GetMutSet(k, 2));
        }
        // the hinted forms share the code path; exercise them on the colliding keys
        for k in 0..self.keys.len().min(4) {
            ops.push(Op::InsertHint(k, 1));
            ops.push(Op::RemoveHint(k));
        }
        ops.push(Op::Reserve(0));
        ops.push(Op::Reserve(1));
        ops.push(Op::Reserve(5));
        ops.push(Op::Clear);
        if self.with_clone {
            ops.push(Op::CloneSwap);
        }
        ops
    }

    fn apply(&self, inst: &mut Inst<A>, op: &Op) -> Result<(), Diverge> {
        if inst.construct_failed {
            return Ok(());
        }
        let failed_before = inst.fault.failed.get();
        match op {
            Op::Insert(ki, v) | Op::InsertHint(ki, v) => {
                let k = self.keys[*ki];
                let (key, val) = (inst.tk(k), inst.tv(*v));
                let vid = val.id;
                let hinted = matches!(op, Op::InsertHint(..));
                let r = if hinted {
                    let h = real_hash(k);
                    if h == 0 {
                        // the hinted form documents that 0 is not a valid hint
                        std::mem::drop((key, val));
                        return inst.no_double_drop("after skipped insert_with_hint");
                    }
                    unsafe { inst.real.as_mut().unwrap().insert_with_hint(h, key, val).map(|_| h) }
                } else {
                    inst.real.as_mut().unwrap().insert(key, val)
                };
                match r {
                    Ok(h) => {
                        if h != real_hash(k) && !hinted {
                            return Err(dv("insert/returned-hash", format!("insert returned hash {h}, hasher gives {}", real_hash(k))));
                        }
                        inst.model.insert(k, (*v, vid));
                    }
                    Err(e) => {
                        if !(inst.fault.failed.get() && !failed_before) {
                            return Err(dv("insert/spurious-error", format!("insert failed without an allocation failure: {e}")));
                        }
                        inst.adopt(k);
                    }
                }
            }
            Op::Remove(ki) | Op::RemoveHint(ki) => {
                let k = self.keys[*ki];
                let probe = inst.tk(k);
                let got = if matches!(op, Op::RemoveHint(_)) {
                    let h = real_hash(k);
                    if h == 0 {
                        return Ok(());
                    }
                    unsafe { inst.real.as_mut().unwrap().remove_with_hint(h, &probe) }
                } else {
                    inst.real.as_mut().unwrap().remove(&probe)
                };
                let exp = inst.model.remove(&k);
                let g = got.as_ref().map(|v| (v.v, v.id));
                if g != exp {
                    if let Some(v) = got {
                        std::mem::forget(v);
                    }
                    return Err(dv("remove/result", format!("remove(key#{ki}) returned {g:?}, model {exp:?}")));
                }
            }
            Op::Entry(ki, v) => {
                let k = self.keys[*ki];
                let key = inst.tk(k);
                let newv = inst.tv(*v);
                let newid = newv.id;
                let exp = inst.model.get(&k).copied();
                let mut slot = Some(newv);
                match inst.real.as_mut().unwrap().entry(key) {
                    Ok(e) => {
                        let r = e.or_insert_with(|| slot.take().unwrap());
                        let got = (r.v, r.id);
                        match exp {
                            Some(x) => {
                                if got != x {
                                    return Err(dv("entry/occupied-value", format!("entry(key#{ki}) on a present key yielded {got:?}, model {x:?}")));
                                }
                            }
                            None => {
                                if got != (*v, newid) {
                                    return Err(dv("entry/vacant-value", format!("entry(key#{ki}).or_insert_with yielded {got:?}, expected the new value")));
                                }
                                inst.model.insert(k, (*v, newid));
                            }
                        }
                    }
                    Err(e) => {
                        if !(inst.fault.failed.get() && !failed_before) {
                            return Err(dv("entry/spurious-error", format!("entry failed without an allocation failure: {e}")));
                        }
                        inst.adopt(k);
                    }
                }
                drop(slot);
            }
            Op::GetMutSet(ki, v) => {
                let k = self.keys[*ki];
                let probe = inst.tk(k);
                let newv = inst.tv(*v);
                let newid = newv.id;
                let exp = inst.model.get(&k).copied();
                match inst.real.as_mut().unwrap().get_mut(&probe) {
                    Some(r) => {
                        let got = (r.v, r.id);
                        if Some(got) != exp {
                            return Err(dv("get_mut/value", format!("get_mut(key#{ki}) yielded {got:?}, model {exp:?}")));
                        }
                        *r = newv;
                        inst.model.insert(k, (*v, newid));
                    }
                    None => {
                        if exp.is_some() {
                            return Err(dv("get_mut/missing", format!("get_mut(key#{ki}) found nothing, model {exp:?}")));
                        }
                    }
                }
            }
            Op::Reserve(n) => {
                let r = inst.real.as_mut().unwrap().reserve(*n);
                if let Err(e) = r {
                    if !(inst.fault.failed.get() && !failed_before) {
                        return Err(dv("reserve/spurious-error", format!("reserve failed without an allocation failure: {e}")));
                    }
                }
            }
            Op::Clear => {
                inst.real.as_mut().unwrap().clear();
                inst.model.clear();
            }
            Op::CloneSwap => {
                let c = inst.real.as_ref().unwrap().clone();
                // the clone must hold equal contents (fresh key/value objects)
                let mut cm = BTreeMap::new();
                for (k, v) in c.iter() {
                    if cm.insert(k.k, (v.v, v.id)).is_some() {
                        return Err(dv("clone/duplicate-key", format!("clone yields key {} twice", k.k)));
                    }
                }
                let want: BTreeMap<u64, u8> = inst.model.iter().map(|(k, v)| (*k, v.0)).collect();
                let have: BTreeMap<u64, u8> = cm.iter().map(|(k, v)| (*k, v.0)).collect();
                if want != have {
                    return Err(dv("clone/contents", format!("clone holds {have:?}, original model {want:?}")));
                }
                // the original is unchanged by cloning
                self.observe(inst, "original-after-clone")?;
                // continue on the clone; the original is dropped here
                let old = inst.real.replace(c);
                drop(old);
                inst.model = cm;
            }
        }
        inst.no_double_drop("after the operation")
    }

    fn invariants(&self, inst: &mut Inst<A>) -> Result<(), Diverge> {
        if inst.construct_failed {
            return Ok(());
        }
        self.observe(inst, "state")?;
        if let Some(e) = inst.fault.layout_errors.borrow().first() {
            return Err(dv("alloc/layout", e.clone()));
        }
        Ok(())
    }

    fn canon(&self, inst: &Inst<A>) -> Vec<u8> {
        let Some(real) = inst.real.as_ref() else {
            return b"construct-failed".to_vec();
        };
        let mut s = format!("c{} n{} |", real.capacity(), real.len());
        for slot in real.verif_raw_slots() {
            match slot {
                None => s.push_str(" _"),
                Some((h, k, v)) => s.push_str(&format!(" {h}:{}={}", k.k, v.v)),
            }
        }
        if inst.fault.failed.get() {
            s.push_str(" F");
        } else if inst.fault.fail_at.get().is_some() {
            // the failure is still ahead: the number of allocations made so far decides where it lands
            s.push_str(&format!(" a{}", inst.fault.count.get()));
        }
        s.into_bytes()
    }

    fn finish(&self, mut inst: Inst<A>) -> Result<(), Diverge> {
        drop(inst.real.take());
        inst.model.clear();
        for (id, d) in inst.ledger.borrow().iter().enumerate() {
            if *d != 1 {
                return Err(dv(
                    if *d == 0 { "drop/leak" } else { "drop/double" },
                    format!("after dropping the map: object #{id} was dropped {d} times"),
                ));
            }
        }
        if let Some(e) = inst.fault.layout_errors.borrow().first() {
            return Err(dv("alloc/layout", e.clone()));
        }
        if !inst.fault.outstanding.borrow().is_empty() {
            return Err(dv("alloc/leak", format!("{} allocations still outstanding after drop", inst.fault.outstanding.borrow().len())));
        }
        Ok(())
    }

    fn nontrivial(&self, inst: &Inst<A>) -> bool {
        // a live key that does not sit in its home slot: a probe chain exists
        let Some(real) = inst.real.as_ref() else {
            return false;
        };
        let cap = real.capacity();
        real.verif_raw_slots()
            .iter()
            .enumerate()
            .any(|(i, s)| matches!(s, Some((h, _, _)) if fib(*h) % cap != i))
    }

    fn op_kind(&self, op: &Op) -> String {
        match op {
            Op::Insert(..) => "insert",
            Op::InsertHint(..) => "insert_with_hint",
            Op::Remove(_) => "remove",
            Op::RemoveHint(_) => "remove_with_hint",
            Op::Entry(..) => "entry",
            Op::GetMutSet(..) => "get_mut",
            Op::Reserve(_) => "reserve",
            Op::Clear => "clear",
            Op::CloneSwap => "clone",
        }
        .to_string()
    }

    fn outcome(&self, inst: &Inst<A>) -> String {
        match inst.real.as_ref() {
            Some(r) => format!("cap{} len{}", r.capacity(), inst.model.len()),
            None => "construct-failed".into(),
        }
    }
}

impl<A: MkAlloc> Sys<A> {
    /// every observation-only call against the model
    fn observe(&self, inst: &Inst<A>, when: &str) -> Result<(), Diverge> {
        let real = inst.real.as_ref().unwrap();
        let m = &inst.model;
        if real.len() != m.len() {
            return Err(dv("len", format!("{when}: len() = {}, model {} ({:?})", real.len(), m.len(), m.keys().collect::<Vec<_>>())));
        }
        if real.is_empty() != m.is_empty() {
            return Err(dv("is_empty", format!("{when}: is_empty() = {}", real.is_empty())));
        }
        for (ki, k) in self.keys.iter().enumerate() {
            let probe = inst.tk(*k);
            let exp = m.get(k).copied();
            let got = real.get(&probe).map(|v| (v.v, v.id));
            if got != exp {
                return Err(dv(
                    if exp.is_some() { "get/lost-entry" } else { "get/phantom-entry" },
                    format!("{when}: get(key#{ki}) = {got:?}, model {exp:?}"),
                ));
            }
            if real.contains(&probe) != exp.is_some() {
                return Err(dv("contains", format!("{when}: contains(key#{ki}) = {}, model {}", real.contains(&probe), exp.is_some())));
            }
            let h = real_hash(*k);
            if h != 0 {
                let got = unsafe { real.get_with_hint(h, &probe) }.map(|v| (v.v, v.id));
                if got != exp {
                    return Err(dv("get_with_hint", format!("{when}: get_with_hint(key#{ki}) = {got:?}, model {exp:?}")));
                }
                if unsafe { real.contains_with_hint(h, &probe) } != exp.is_some() {
                    return Err(dv("contains_with_hint", format!("{when}: contains_with_hint(key#{ki}) disagrees with the model")));
                }
            }
        }
        let mut seen = BTreeMap::new();
        for (k, v) in real.iter() {
            if seen.insert(k.k, (v.v, v.id)).is_some() {
                return Err(dv("iter/duplicate", format!("{when}: iter yields key {} twice", k.k)));
            }
            let l = inst.ledger.borrow();
            if l[k.id] != 0 || l[v.id] != 0 {
                return Err(dv("iter/dropped-object", format!("{when}: iter yields an already dropped key/value object for key {}", k.k)));
            }
        }
        if &seen != m {
            return Err(dv("iter/contents", format!("{when}: iter yields {seen:?}, model {m:?}")));
        }
        // storage sanity: no live key twice in the buckets
        let mut live = std::collections::BTreeSet::new();
        for s in real.verif_raw_slots().into_iter().flatten() {
            if !live.insert(s.1.k) {
                return Err(dv("buckets/duplicate-key", format!("{when}: key {} occupies two buckets", s.1.k)));
            }
        }
        Ok(())
    }
}

// iter_mut is checked once per state through a mutable borrow
fn iter_mut_check<A: MkAlloc>(inst: &mut Inst<A>) -> Result<(), Diverge> {
    let m = inst.model.clone();
    let mut seen = BTreeMap::new();
    for (k, v) in inst.real.as_mut().unwrap().iter_mut() {
        seen.insert(k.k, (v.v, v.id));
    }
    if seen != m {
        return Err(dv("iter_mut/contents", format!("iter_mut yields {seen:?}, model {m:?}")));
    }
    Ok(())
}

// ------------------------------------------------------------------------------------------------
// configuration / units
// ------------------------------------------------------------------------------------------------

#[derive(Clone, Debug)]
struct UnitCfg {
    alloc: AllocKind,
    init_cap: usize,
    depth: usize,
    faults: bool,
}

fn unit_cfgs(tier: Tier) -> Vec<UnitCfg> {
    let d = tier.pick(6, 8);
    let fd = tier.pick(5, 6);
    vec![
        UnitCfg { alloc: AllocKind::Sys, init_cap: 0, depth: d, faults: false },
        UnitCfg { alloc: AllocKind::Sys, init_cap: 4, depth: d, faults: false },
        UnitCfg { alloc: AllocKind::Proxy, init_cap: 0, depth: d, faults: false },
        UnitCfg { alloc: AllocKind::Proxy, init_cap: 6, depth: d, faults: false },
        UnitCfg { alloc: AllocKind::Fault, init_cap: 0, depth: fd, faults: true },
        UnitCfg { alloc: AllocKind::Fault, init_cap: 3, depth: fd, faults: true },
    ]
}

fn bfs_cfg(u: &UnitCfg, fail_at: Option<u64>, threads: usize) -> BfsCfg<'static> {
    bfs_cfg_dl(u, fail_at, threads, None)
}

fn bfs_cfg_dl(u: &UnitCfg, fail_at: Option<u64>, threads: usize, deadline: Option<std::time::Instant>) -> BfsCfg<'static> {
    BfsCfg {
        property: "C12",
        case_base: json!({"alloc": format!("{:?}", u.alloc), "init_cap": u.init_cap, "fail_at": fail_at, "keys": key_alphabet()}),
        max_depth: u.depth,
        max_states: 3_000_000,
        threads,
        deadline,
    }
}

fn mk_sys<A: MkAlloc>(u: &UnitCfg, fail_at: Option<u64>) -> Sys<A> {
    Sys {
        keys: key_alphabet(),
        init_cap: u.init_cap,
        with_clone: fail_at.is_none(),
        fail_at,
        _m: Default::default(),
    }
}

/// wraps a system so that `invariants` additionally runs the iter_mut check
struct WithIterMut<A: MkAlloc>(Sys<A>);
impl<A: MkAlloc> HistSystem for WithIterMut<A> {
    type Op = Op;
    type Inst = Inst<A>;
    fn fresh(&self) -> Inst<A> {
        self.0.fresh()
    }
    fn ops(&self, i: &Inst<A>) -> Vec<Op> {
        self.0.ops(i)
    }
    fn apply(&self, i: &mut Inst<A>, op: &Op) -> Result<(), Diverge> {
        self.0.apply(i, op)
    }
    fn invariants(&self, i: &mut Inst<A>) -> Result<(), Diverge> {
        self.0.invariants(i)?;
        if i.real.is_some() {
            iter_mut_check(i)?;
        }
        Ok(())
    }
    fn canon(&self, i: &Inst<A>) -> Vec<u8> {
        self.0.canon(i)
    }
    fn finish(&self, i: Inst<A>) -> Result<(), Diverge> {
        self.0.finish(i)
    }
    fn nontrivial(&self, i: &Inst<A>) -> bool {
        self.0.nontrivial(i)
    }
    fn op_kind(&self, op: &Op) -> String {
        self.0.op_kind(op)
    }
    fn outcome(&self, i: &Inst<A>) -> String {
        self.0.outcome(i)
    }
}

fn run_cfg(u: &UnitCfg, budget_s: u64, out: &mut ChunkResult) {
    let start = std::time::Instant::now();
    let dl = |part: u64, of: u64| Some(start + std::time::Duration::from_millis(budget_s * 1000 * part / of));
    match u.alloc {
        AllocKind::Sys => hist::bfs(&WithIterMut(mk_sys::<SysAllocator>(u, None)), &bfs_cfg_dl(u, None, 4, dl(1, 1)), out),
        AllocKind::Proxy => hist::bfs(&WithIterMut(mk_sys::<AllocProxy>(u, None)), &bfs_cfg_dl(u, None, 4, dl(1, 1)), out),
        AllocKind::Fault => {
            // fault enumeration: for every allocation index i (up to the most any explored
            // history performs) the whole bounded history space is explored again with
            // allocation #i failing. A history that performs fewer than i allocations simply
            // never reaches the failure and is the fault-free run.
            let max_allocs = 2 + u.depth as u64; // construction + at most one (re)allocation per operation (clone is excluded from fault runs)
            hist::bfs(&WithIterMut(mk_sys::<FaultAlloc>(u, None)), &bfs_cfg_dl(u, None, 4, dl(1, max_allocs + 1)), out);
            for i in 0..max_allocs {
                let mut local = ChunkResult::default();
                hist::bfs(&WithIterMut(mk_sys::<FaultAlloc>(u, Some(i))), &bfs_cfg_dl(u, Some(i), 4, dl(i + 2, max_allocs + 1)), &mut local);
                out.count("fault_points_explored", 1);
                out.merge(local);
            }
        }
    }
}

// ------------------------------------------------------------------------------------------------
// drop matrix: key / value types with and without drop glue
// ------------------------------------------------------------------------------------------------

trait Item: Sized + Clone {
    fn mk(x: u64, l: &Ledger) -> Self;
    const TRACKED: bool;
}
impl Item for TK {
    fn mk(x: u64, l: &Ledger) -> Self {
        TK { k: x, id: new_id(Rc::as_ptr(l)), ledger: Rc::as_ptr(l) }
    }
    const TRACKED: bool = true;
}
impl Item for TV {
    fn mk(x: u64, l: &Ledger) -> Self {
        TV { v: x as u8, id: new_id(Rc::as_ptr(l)), ledger: Rc::as_ptr(l) }
    }
    const TRACKED: bool = true;
}
impl Item for u64 {
    fn mk(x: u64, _l: &Ledger) -> Self {
        x
    }
    const TRACKED: bool = false;
}
impl Item for u32 {
    fn mk(x: u64, _l: &Ledger) -> Self {
        x as u32
    }
    const TRACKED: bool = false;
}

/// operation alphabet of the drop matrix: code / 3 = kind, code % 3 = key
const DM_OPS: u64 = 17;

fn dm_history(code: u64, depth: u32) -> Vec<u64> {
    let mut c = code;
    (0..depth)
        .map(|_| {
            let o = c % DM_OPS;
            c /= DM_OPS;
            o
        })
        .collect()
}

/// one history on a CaoHashMap<K, V>: no tracked object is ever dropped twice, every tracked object
/// is dropped exactly once when the map (and the clone) is gone
fn dm_run<K: Item + Hash + Eq, V: Item>(hist: &[u64]) -> Option<(String, String)> {
    let ledger: Ledger = Rc::new(RefCell::new(Vec::new()));
    let keys = key_alphabet();
    let mut map: CaoHashMap<K, V, SysAllocator> = CaoHashMap::with_capacity_in(0, SysAllocator::default()).ok()?;
    let mut clones: Vec<CaoHashMap<K, V, SysAllocator>> = Vec::new();
    let check = |when: &str, ledger: &Ledger| -> Option<(String, String)> {
        for (id, d) in ledger.borrow().iter().enumerate() {
            if *d > 1 {
                return Some(("dropmatrix/double".into(), format!("{when}: object #{id} dropped {d} times")));
            }
        }
        None
    };
    for (step, op) in hist.iter().enumerate() {
        let k = keys[(*op % 3) as usize];
        match *op / 3 {
            0 => {
                let _ = map.insert(K::mk(k, &ledger), V::mk(1, &ledger));
            }
            1 => {
                let probe = K::mk(k, &ledger);
                let _ = map.remove(&probe);
            }
            2 => {
                if let Ok(e) = map.entry(K::mk(k, &ledger)) {
                    let l2 = ledger.clone();
                    e.or_insert_with(|| V::mk(2, &l2));
                }
            }
            3 => {
                let probe = K::mk(k, &ledger);
                if let Some(v) = map.get_mut(&probe) {
                    *v = V::mk(3, &ledger);
                }
            }
            4 => match *op % 3 {
                0 => map.clear(),
                1 => {
                    let _ = map.reserve(5);
                }
                _ => clones.push(map.clone()),
            },
            _ => {
                // replace the map by its clone (the original is dropped here)
                if *op % 3 == 0 {
                    let c = map.clone();
                    map = c;
                } else {
                    clones.clear();
                }
            }
        }
        if let Some(v) = check(&format!("after step {step}"), &ledger) {
            return Some(v);
        }
    }
    let live = map.len();
    drop(map);
    drop(clones);
    for (id, d) in ledger.borrow().iter().enumerate() {
        if *d != 1 {
            return Some((if *d == 0 { "dropmatrix/leak" } else { "dropmatrix/double" }.into(), format!("after dropping the map ({live} entries at the end): object #{id} dropped {d} times (key tracked: {}, value tracked: {})", K::TRACKED, V::TRACKED)));
        }
    }
    None
}

/// two distinct keys with the same full hash under the crate's hasher (the classic FNV-1a pair)
/// and one ordinary key
const COLLIDING: [&str; 3] = ["costarring", "liquid", "other"];

/// every history over {insert, remove, entry, clear} x the colliding pair + one key on a plain map:
/// after every step get / contains / len / iter for the three keys equal a BTreeMap
fn cp_run(hist: &[u64]) -> Option<(String, String)> {
    let keys: Vec<String> = COLLIDING.iter().map(|s| s.to_string()).collect();
    if CaoHashMap::<String, ()>::verif_raw_hash(&keys[0]) != CaoHashMap::<String, ()>::verif_raw_hash(&keys[1]) {
        cvx_core::engine::machinery_error("the two strings of the collision pair no longer hash alike: pick another pair for the crate's current hasher");
    }
    let mut map: CaoHashMap<String, u32, SysAllocator> = CaoHashMap::with_capacity_in(0, SysAllocator::default()).ok()?;
    let mut model: BTreeMap<String, u32> = BTreeMap::new();
    for (step, op) in hist.iter().enumerate() {
        let k = keys[(*op % 3) as usize].clone();
        let v = 10 + step as u32;
        match *op / 3 {
            0 => {
                let _ = map.insert(k.clone(), v);
                model.insert(k, v);
            }
            1 => {
                let got = map.remove(&k);
                let want = model.remove(&k);
                if got != want {
                    return Some(("collision/remove".into(), format!("history {hist:?} step {step}: remove({k:?}) = {got:?}, model {want:?}")));
                }
            }
            2 => {
                if let Ok(e) = map.entry(k.clone()) {
                    let got = *e.or_insert_with(|| v);
                    let want = *model.entry(k).or_insert(v);
                    if got != want {
                        return Some(("collision/entry".into(), format!("history {hist:?} step {step}: entry yields {got}, model {want}")));
                    }
                }
            }
            _ => {
                if *op % 3 == 0 {
                    map.clear();
                    model.clear();
                }
            }
        }
        if map.len() != model.len() {
            return Some(("collision/len".into(), format!("history {hist:?} step {step}: len() = {}, model {}", map.len(), model.len())));
        }
        for k in keys.iter() {
            if map.get(k).copied() != model.get(k).copied() {
                return Some(("collision/get".into(), format!("history {hist:?} step {step}: get({k:?}) = {:?}, model {:?} ({:?} and {:?} have the same full hash)", map.get(k), model.get(k), keys[0], keys[1])));
            }
            if map.contains(k) != model.contains_key(k) {
                return Some(("collision/contains".into(), format!("history {hist:?} step {step}: contains({k:?}) = {}, model {} ({:?} and {:?} have the same full hash)", map.contains(k), model.contains_key(k), keys[0], keys[1])));
            }
            // the borrowed form of the key (&str) finds the same entries
            if map.get(k.as_str()).copied() != model.get(k).copied() {
                return Some(("collision/get-borrowed".into(), format!("history {hist:?} step {step}: get(&str {k:?}) differs from the model")));
            }
        }
        let mut it: Vec<(String, u32)> = map.iter().map(|(k, v)| (k.clone(), *v)).collect();
        it.sort();
        if it != model.iter().map(|(k, v)| (k.clone(), *v)).collect::<Vec<_>>() {
            return Some(("collision/iter".into(), format!("history {hist:?} step {step}: iter yields {it:?}")));
        }
    }
    None
}

fn dm_dispatch(combo: u64, hist: &[u64]) -> Option<(String, String)> {
    match combo {
        0 => dm_run::<TK, u32>(hist),
        1 => dm_run::<u64, TV>(hist),
        _ => dm_run::<TK, TV>(hist),
    }
}

fn dm_depth(tier: Tier) -> u32 {
    tier.pick(4, 5)
}

fn run_drop_matrix(tier: Tier, out: &mut ChunkResult) {
    let depth = dm_depth(tier);
    let total = DM_OPS.pow(depth);
    for combo in 0..3u64 {
        for code in 0..total {
            let hist = dm_history(code, depth);
            out.evaluations += 1;
            out.traces += 1;
            out.transitions += depth as u64;
            if let Some((k, w)) = dm_dispatch(combo, &hist) {
                let names = ["tracked key / plain value", "plain key / tracked value", "tracked key / tracked value"];
                out.violation(Violation::new("C12", k, format!("{}: history {:?}: {w}", names[combo as usize], hist), serde_json::json!({"dropmatrix": combo, "history": hist})));
                break;
            }
        }
        out.states += 1;
        out.nontrivial += 1;
    }
    out.outcome("drop matrix");
    // histories over two keys with the same full hash
    const CP_OPS: u64 = 12;
    let cp_depth = depth + 1;
    for code in 0..CP_OPS.pow(cp_depth) {
        let mut c = code;
        let hist: Vec<u64> = (0..cp_depth)
            .map(|_| {
                let o = c % CP_OPS;
                c /= CP_OPS;
                o
            })
            .collect();
        out.evaluations += 1;
        out.traces += 1;
        if let Some((k, w)) = cp_run(&hist) {
            out.violation(Violation::new("C12", k, w, serde_json::json!({"collision": hist})));
            break;
        }
    }
    out.outcome("full-hash collision pair");
}

impl Check for C12 {
    fn id(&self) -> &'static str {
        "C12"
    }

    fn info(&self, tier: Tier) -> CheckInfo {
        let u = unit_cfgs(tier);
        CheckInfo {
            rule: "explicit-state BFS over histories of insert/insert_with_hint/remove/remove_with_hint/entry().or_insert_with/get_mut-assign/reserve(0|1|5)/clear/clone-and-continue on the real CaoHashMap<tracked key, tracked value, A>; key alphabet chosen with the real hasher (3 keys whose home slot is the last bucket at capacities 3,4,6,9,13, 2 keys with home slot 0, 1 ordinary key, 1 key hashing to the reserved value 0); after every step get/contains/get_with_hint/contains_with_hint for every key, len, is_empty, iter, iter_mut, bucket dump compared with a BTreeMap model; drop ledger (no object dropped twice at any step, every object dropped exactly once after the map is dropped); fault runs: the same search with allocation #i failing, for every i. Canonical state = capacity, count and every bucket (hash,key,value) in storage order. Non-trivial = state in which a live key is displaced from its home slot. Drop matrix: every history of a 17-operation alphabet (insert / remove / entry / get_mut-assign on 3 keys, clear, reserve, clone, replace-by-clone, drop clones) up to depth 4 (thorough 5) on maps whose key type has drop glue and whose value type has none, the reverse, and both: no object dropped twice at any step, each dropped exactly once at the end. Collision pair: two distinct string keys with the same full hash under the crate's hasher (\"costarring\" / \"liquid\") and one ordinary key, every history of insert / remove / entry / clear up to depth 5 (thorough 6) against a BTreeMap incl. contains".into(),
            bound: format!("history depth {} (fault runs depth {}), configurations {:?}", u[0].depth, u[4].depth, u.iter().map(|c| format!("{:?}/cap{}", c.alloc, c.init_cap)).collect::<Vec<_>>()),
            exhaustive: true,
            assumptions: vec![
                "values {1,2,3,4}: the map never inspects values".into(),
                "clone under allocation failure is excluded (Clone cannot report an error; it panics like std collections abort)".into(),
                "after an operation that reported an allocation error, the entry for the key being operated on may be in its old or new state (both leave previously stored entries retrievable); all other keys must be unchanged".into(),
            ],
            explanation: "every transition is an operation of the real map; BTreeMap is only the oracle".into(),
        }
    }

    fn units(&self, tier: Tier) -> u64 {
        unit_cfgs(tier).len() as u64 + 1
    }

    fn unit_timeout_s(&self, tier: Tier) -> u64 {
        tier.pick(120, 2400)
    }

    fn run_unit(&self, tier: Tier, unit: u64, out: &mut ChunkResult) {
        if unit as usize == unit_cfgs(tier).len() {
            return run_drop_matrix(tier, out);
        }
        let u = unit_cfgs(tier)[unit as usize].clone();
        run_cfg(&u, tier.pick(30, 900), out);
    }

    fn replay(&self, case: &J) -> Option<Violation> {
        if let Some(h) = case.get("collision") {
            let h: Vec<u64> = serde_json::from_value(h.clone()).ok()?;
            return cp_run(&h).map(|(k, w)| Violation::new("C12", k, w, case.clone()));
        }
        if let Some(combo) = case["dropmatrix"].as_u64() {
            let h: Vec<u64> = serde_json::from_value(case["history"].clone()).ok()?;
            return dm_dispatch(combo, &h).map(|(k, w)| Violation::new("C12", k, w, case.clone()));
        }
        let h: Vec<Op> = serde_json::from_value(case["history"].clone()).ok()?;
        let fail_at = case["fail_at"].as_u64();
        let u = UnitCfg {
            alloc: match case["alloc"].as_str()? {
                "Sys" => AllocKind::Sys,
                "Proxy" => AllocKind::Proxy,
                _ => AllocKind::Fault,
            },
            init_cap: case["init_cap"].as_u64()? as usize,
            depth: 64,
            faults: fail_at.is_some(),
        };
        let _ = u.faults;
        match u.alloc {
            AllocKind::Sys => hist::replay(&WithIterMut(mk_sys::<SysAllocator>(&u, None)), &bfs_cfg(&u, None, 1), &h),
            AllocKind::Proxy => hist::replay(&WithIterMut(mk_sys::<AllocProxy>(&u, None)), &bfs_cfg(&u, None, 1), &h),
            AllocKind::Fault => hist::replay(&WithIterMut(mk_sys::<FaultAlloc>(&u, fail_at)), &bfs_cfg(&u, fail_at, 1), &h),
        }
    }
}
