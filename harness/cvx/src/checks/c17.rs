//! C17 — a cleared VM behaves like a fresh one; runs are deterministic and do not leak.
//!
//! Explicit-state BFS over histories of run(P_i) / clear on one real VM (programs that end Ok,
//! in Timeout, OutOfMemory, value-stack and call-stack overflow, a native error, with globals,
//! open upvalues, stray stack values and collections left behind), compared with the outcome and
//! counters of the same program on a fresh VM; plus straight-line repetition up to 600 runs.

use crate::realrun::{self, CompileOutcome, Host, RunCfg};
use cao_lang::prelude::*;
use cao_lang::verif;
use cvx_core::engine::{Check, CheckInfo, ChunkResult, Tier, Violation};
use cvx_core::hist::{self, BfsCfg, Diverge, HistSystem};
use cvx_core::ir::{self, *};
use cvx_core::refsem::{self, Ob};
use serde::{Deserialize, Serialize};
use serde_json::{json, Value as J};
use std::collections::BTreeMap;
use std::sync::OnceLock;

pub struct C17;

fn add(a: C, c: C) -> C {
    bin(BinOp::Add, a, c)
}
fn sink(c: C) -> C {
    sg("_sink", c)
}

/// (name, program, leaves the stacks balanced and ends Ok)
pub fn programs() -> Vec<(&'static str, Module, bool)> {
    let lit = "a string literal of about sixty bytes, allocated on every iteration";
    let mut deep = int(1);
    for _ in 0..300 {
        deep = add(int(1), deep);
    }
    vec![
        ("ok-small", module(vec![("main", func(&[], vec![sv("a", int(1)), sg("g", add(rv("a"), int(2)))]))]), true),
        (
            "ok-allocating",
            module(vec![("main", func(&[], vec![sg("t", C::CreateTable), C::Repeat { n: b(int(40)), i: Some("i".into()), body: b(comp(vec![sg("v", s(lit)), C::SetProperty(b(rv("v")), b(rv("t")), b(rv("i")))])) }, sg("len", C::Len(b(rv("t"))))]))]),
            true,
        ),
        ("gc-heavy", module(vec![("main", func(&[], vec![C::Repeat { n: b(int(1500)), i: None, body: b(sg("s", s(lit))) }, sg("done", int(1))]))]), true),
        ("timeout", module(vec![("main", func(&[], vec![sv("x", int(0)), sg("before", int(1)), C::While(b(int(1)), b(sv("x", add(rv("x"), int(1)))))]))]), false),
        (
            "out-of-memory",
            module(vec![("main", func(&[], vec![sg("t", C::CreateTable), C::Repeat { n: b(int(100_000)), i: Some("i".into()), body: b(comp(vec![sg("v", s(lit)), C::SetProperty(b(rv("v")), b(rv("t")), b(rv("i")))])) }]))]),
            false,
        ),
        ("value-stack-overflow", module(vec![("main", func(&[], vec![sg("before", int(1)), sg("g", deep)]))]), false),
        ("call-stack-overflow", module(vec![("main", func(&[], vec![sg("r", call("f", vec![int(0)]))])), ("f", func(&["n"], vec![sv("l", int(1)), C::Return(b(call("f", vec![add(rv("n"), int(1))])))]))]), false),
        ("native-error", module(vec![("main", func(&[], vec![sv("a", int(1)), sg("r", call("f", vec![rv("a")]))])), ("f", func(&["x"], vec![sv("y", s("local string")), sink(native("fail", vec![rv("x")])), C::Return(b(int(1)))]))]), false),
        ("leaves-globals", module(vec![("main", func(&[], vec![sg("a", int(1)), sg("b", s("text")), sg("c", C::CreateTable), sg("d", C::Function("f".into()))])), ("f", func(&[], vec![]))]), true),
        (
            "leaves-open-upvalues",
            module(vec![(
                "main",
                func(&[], vec![sv("x", int(5)), sv("c", C::Closure(vec![], vec![sv("x", add(rv("x"), int(1))), C::Return(b(rv("x")))])), sg("r", C::DynCall(b(rv("c")), vec![])), sink(C::GetProperty(b(int(1)), b(int(2))))]),
            )]),
            false,
        ),
        ("leaves-stack-values", module(vec![("main", func(&[], vec![int(1), s("stray string"), C::CreateTable, sg("g", int(3))]))]), false),
        // Abort ends the run with Ok from inside nested calls and scopes
        ("abort-in-nested-call", module(vec![("main", func(&[], vec![sg("before", int(1)), sg("r", call("f", vec![int(1)])), sg("never", int(1))])), ("f", func(&["x"], vec![sv("l", s("local of f")), C::Return(b(call("g", vec![rv("x")])))])), ("g", func(&["y"], vec![sv("m", C::CreateTable), C::Repeat { n: b(int(3)), i: Some("i".into()), body: b(C::IfTrue(b(rv("i")), b(C::Abort))) }, C::Return(b(int(1)))]))]), true),
        ("abort-in-closure", module(vec![("main", func(&[], vec![sv("x", int(5)), sv("c", C::Closure(vec![], vec![sv("x", add(rv("x"), int(1))), C::Abort])), sg("before", rv("x")), sg("r", C::DynCall(b(rv("c")), vec![])), sg("never", int(1))]))]), true),
        // sorting by a key function that returns one shared object for every row (the native guards it per row)
        (
            "sort-by-shared-key",
            module(vec![
                ("main", func(&[], vec![sg("shared", s(&lit.repeat(6))), sg("t", C::CreateTable), C::Append(b(int(2)), b(rv("t"))), C::Append(b(int(1)), b(rv("t"))), C::Append(b(int(3)), b(rv("t"))), sg("r", call("std.sorted_by_key", vec![C::Function("kf".into()), rv("t")])), sg("shared", int(0))])),
                ("kf", func(&["key", "value"], vec![C::Return(b(rv("shared")))])),
            ]),
            true,
        ),
        // strings without a payload, and one-byte ones
        ("empty-strings", module(vec![("main", func(&[], vec![sg("t", C::CreateTable), C::Repeat { n: b(int(60)), i: Some("i".into()), body: b(comp(vec![sg("e", s("")), sg("o", s("x")), C::SetProperty(b(s("")), b(rv("t")), b(rv("i")))])) }, sg("len", C::Len(b(rv("t"))))]))]), true),
        // one object as key and as value of one entry, garbage after the run (two guards on one object)
        ("same-object-key-and-value", module(vec![("main", func(&[], vec![sv("str", s(&lit.repeat(4))), sv("t", C::CreateTable), C::SetProperty(b(rv("str")), b(rv("t")), b(rv("str"))), sv("u", C::CreateTable), C::SetProperty(b(rv("u")), b(rv("t")), b(rv("u"))), sg("len", C::Len(b(rv("t"))))]))]), true),
        // calls of a function with the same index (and so the same label) as in other programs, at another position
        ("calls-second-function", module(vec![("main", func(&[], vec![sv("pad", int(1)), sv("pad2", s("padding")), sg("r", call("first", vec![]))])), ("first", func(&[], vec![C::Return(b(int(7)))])), ("second", func(&[], vec![C::Return(b(int(2)))]))]), true),
        ("calls-first-function", module(vec![("main", func(&[], vec![sg("r", call("first", vec![]))])), ("first", func(&[], vec![sv("q", int(40)), C::Return(b(add(rv("q"), int(2))))]))]), true),
        ("reads-global", module(vec![("main", func(&[], vec![sg("g", int(7)), sg("h", add(rv("g"), int(1)))]))]), true),
    ]
}

#[derive(Clone, Debug, PartialEq, Serialize, Deserialize)]
struct Obs {
    result: String,
    globals: BTreeMap<String, String>,
    log: Vec<String>,
    instr: u64,
    allocated_after: usize,
    objects_after: usize,
}

const CFG: RunCfg = RunCfg { max_instr: 30_000, mem_limit: 64 * 1024, stack: 256, call_stack: 256 };

struct Compiled {
    progs: Vec<(String, Module, CaoCompiledProgram, bool)>,
    fresh: Vec<Obs>,
    fresh_counters: (usize, usize, usize),
}

fn observe(vm: &Vm<Host>, m: &Module, p: &CaoCompiledProgram, r: &Result<(), ExecutionError>) -> Obs {
    let names = m.mentioned_names();
    let o = realrun::observe_run(vm, p, &names, r);
    let c = verif::counters(&vm.runtime_data);
    Obs {
        result: o.result,
        globals: o.globals.iter().map(|(k, v): (&String, &Ob)| (k.clone(), v.short())).collect(),
        log: o.log.iter().map(|(n, a)| format!("{n}({})", a.iter().map(|x| x.short()).collect::<Vec<_>>().join(","))).collect(),
        instr: verif::instr_count(),
        allocated_after: c.0,
        objects_after: verif::live_object_count(&vm.runtime_data),
    }
}

fn fresh_vm() -> Vm<'static, Host> {
    let natives = refsem::default_natives();
    let mut vm = realrun::new_vm(&Module::default(), &natives, &CFG);
    // (names are only used to print function values; give the VM the union of all programs' names)
    vm.max_instr = CFG.max_instr;
    vm
}

static COMPILED: OnceLock<Compiled> = OnceLock::new();

// the compiled programs are only ever used from the thread that runs the unit
unsafe impl Sync for Compiled {}
unsafe impl Send for Compiled {}

fn compiled() -> &'static Compiled {
    COMPILED.get_or_init(|| {
        let mut progs = Vec::new();
        for (n, m, bal) in programs() {
            let (co, p) = realrun::compile_real(&m);
            match (co, p) {
                (CompileOutcome::Ok, Some(p)) => progs.push((n.to_string(), m, p, bal)),
                _ => cvx_core::engine::machinery_error(&format!("C17 program {n} does not compile")),
            }
        }
        let mut fresh = Vec::new();
        let mut fresh_counters = (0, 0, 0);
        for (_, m, p, _) in progs.iter() {
            let mut vm = fresh_vm();
            fresh_counters = verif::counters(&vm.runtime_data);
            verif::reset_instr_count();
            let r = vm.run(p);
            fresh.push(observe(&vm, m, p, &r));
        }
        Compiled { progs, fresh, fresh_counters }
    })
}

#[derive(Clone, Debug, Serialize, Deserialize)]
pub enum Op {
    Run(usize),
    Clear,
}

struct Sys;

struct Inst {
    vm: Vm<'static, Host>,
    /// fresh, or cleared and nothing run since
    clean: bool,
    /// every run since the last clear was a balanced one
    balanced_chain: bool,
    last: Option<Obs>,
}

fn dv(key: String, what: String) -> Diverge {
    (key, what)
}

impl HistSystem for Sys {
    type Op = Op;
    type Inst = Inst;

    fn fresh(&self) -> Inst {
        let _ = compiled();
        Inst { vm: fresh_vm(), clean: true, balanced_chain: true, last: None }
    }

    fn ops(&self, inst: &Inst) -> Vec<Op> {
        let c = compiled();
        let mut ops = vec![Op::Clear];
        for (i, (_, _, _, bal)) in c.progs.iter().enumerate() {
            if inst.clean || (inst.balanced_chain && *bal) {
                ops.push(Op::Run(i));
            }
        }
        ops
    }

    fn apply(&self, inst: &mut Inst, op: &Op) -> Result<(), Diverge> {
        let c = compiled();
        match op {
            Op::Clear => {
                inst.vm.clear();
                inst.vm.auxiliary_data.log.clear(); // the harness's own host log
                inst.clean = true;
                inst.balanced_chain = true;
                inst.last = None;
                let rt = &inst.vm.runtime_data;
                let counters = verif::counters(rt);
                let state = (counters, verif::stack_len(rt), verif::call_depth(rt), verif::globals(rt).len(), verif::live_object_count(rt), verif::open_upvalues(rt).map(|l| l.len()).unwrap_or(999));
                let want = (c.fresh_counters, 0, 0, 0, 0, 0);
                if state != want {
                    return Err(dv(
                        "clear/state-differs-from-fresh".into(),
                        format!("after clear: (allocated, next_gc, limit) = {:?}, value stack {}, call stack {}, globals {}, objects {}, open upvalues {}; a fresh VM has {:?}, 0, 0, 0, 0, 0", state.0, state.1, state.2, state.3, state.4, state.5, c.fresh_counters),
                    ));
                }
            }
            Op::Run(i) => {
                let (name, m, p, bal) = &c.progs[*i];
                verif::reset_instr_count();
                inst.vm.auxiliary_data.log.clear();
                let r = inst.vm.run(p);
                let got = observe(&inst.vm, m, p, &r);
                let want = &c.fresh[*i];
                if inst.clean {
                    if &got != want {
                        return Err(dv(format!("run-after-clear-differs:{name}"), format!("{name} on a cleared VM: {got:?}; on a fresh VM: {want:?}")));
                    }
                } else {
                    // a balanced program repeated without clear: same outcome (counters may differ)
                    if got.result != want.result || got.log != want.log || want.globals.iter().any(|(k, v)| got.globals.get(k) != Some(v)) {
                        return Err(dv(format!("rerun-without-clear-differs:{name}"), format!("{name} run again without clear: result {} (fresh: {}), globals {:?} (fresh: {:?})", got.result, want.result, got.globals, want.globals)));
                    }
                }
                inst.clean = false;
                inst.balanced_chain = inst.balanced_chain && *bal;
                inst.last = Some(got);
            }
        }
        Ok(())
    }

    fn invariants(&self, _inst: &mut Inst) -> Result<(), Diverge> {
        Ok(())
    }

    fn canon(&self, inst: &Inst) -> Vec<u8> {
        let rt = &inst.vm.runtime_data;
        format!(
            "clean{} chain{} counters{:?} stack{} calls{} globals{} objects{} upvalues{:?} last{:?}",
            inst.clean,
            inst.balanced_chain,
            verif::counters(rt),
            verif::stack_len(rt),
            verif::call_depth(rt),
            verif::globals(rt).len(),
            verif::live_object_count(rt),
            verif::open_upvalues(rt).map(|l| l.len()),
            inst.last.as_ref().map(|o| (&o.result, o.allocated_after, o.objects_after))
        )
        .into_bytes()
    }

    fn finish(&self, _inst: Inst) -> Result<(), Diverge> {
        Ok(())
    }

    fn nontrivial(&self, inst: &Inst) -> bool {
        !inst.clean
    }

    fn op_kind(&self, op: &Op) -> String {
        match op {
            Op::Run(_) => "run".into(),
            Op::Clear => "clear".into(),
        }
    }

    fn outcome(&self, inst: &Inst) -> String {
        inst.last.as_ref().map(|o| o.result.clone()).unwrap_or_else(|| "clean".into())
    }
}

fn cfg(depth: usize, budget_s: u64) -> BfsCfg<'static> {
    BfsCfg { property: "C17", case_base: json!({"kind": "history"}), max_depth: depth, max_states: 2_000_000, threads: 12, deadline: Some(std::time::Instant::now() + std::time::Duration::from_secs(budget_s)) }
}

/// n successive runs of one program, with clear in between (and without, for balanced programs)
fn repetition(i: usize, with_clear: bool, n: usize) -> Option<(String, String)> {
    let c = compiled();
    let (name, m, p, _) = &c.progs[i];
    let mut vm = fresh_vm();
    let want = &c.fresh[i];
    for k in 0..n {
        verif::reset_instr_count();
        let r = std::panic::catch_unwind(std::panic::AssertUnwindSafe(|| vm.run(p)));
        let r = match r {
            Ok(r) => r,
            Err(pn) => {
                std::mem::forget(vm);
                return Some((format!("repetition-panic:{name}"), format!("run #{} of {name} panicked: {}", k + 1, cvx_core::engine::panic_message(&pn))));
            }
        };
        let got = observe(&vm, m, p, &r);
        let same = if with_clear { &got == want } else { got.result == want.result && got.log == want.log && want.globals.iter().all(|(k, v)| got.globals.get(k) == Some(v)) };
        if !same {
            return Some((format!("repetition-differs:{name}:{}", if with_clear { "with-clear" } else { "without-clear" }), format!("run #{} of {name} ({}): {got:?}; first run / fresh VM: {want:?}", k + 1, if with_clear { "clear between runs" } else { "no clear" })));
        }
        if with_clear {
            vm.clear();
        }
        vm.auxiliary_data.log.clear(); // the harness's own host log
    }
    None
}

/// Two *different* programs held one after the other in the same variable (the second compiled
/// program takes the place, and the address, of the first): run A, optionally clear, store B in the
/// slot, run B. With a clear in between B must equal B on a new VM in everything; without one
/// (balanced A only) in result, host log and its own globals.
fn slot_reuse(i: usize, j: usize, with_clear: bool) -> Option<(String, String)> {
    let c = compiled();
    let (an, _, ap, abal) = &c.progs[i];
    let (bn, bm, bp, _) = &c.progs[j];
    if !with_clear && !*abal {
        return None;
    }
    let mut vm = fresh_vm();
    let mut slot: CaoCompiledProgram = ap.clone();
    verif::reset_instr_count();
    let _ = vm.run(&slot);
    if with_clear {
        vm.clear();
    }
    vm.auxiliary_data.log.clear();
    slot = bp.clone();
    verif::reset_instr_count();
    let r = vm.run(&slot);
    let got = observe(&vm, bm, &slot, &r);
    let want = &c.fresh[j];
    let same = if with_clear { &got == want } else { got.result == want.result && got.log == want.log && want.globals.iter().all(|(k, v)| got.globals.get(k) == Some(v)) };
    if !same {
        return Some((format!("slot-reuse-differs:{bn}:{}", if with_clear { "with-clear" } else { "without-clear" }), format!("{bn} run from the variable that held {an} before ({}): {got:?}; on a new VM: {want:?}", if with_clear { "clear in between" } else { "no clear" })));
    }
    None
}

/// (allocated, next collection, limit) of a VM whose limit was set through `set_memory_limit`, of
/// one created with that limit, and of both after a clear
fn limit_config(limit: usize) -> Option<(String, String)> {
    let created = cao_lang::vm::runtime::RuntimeData::new(limit, 256, 256).ok()?;
    let want = verif::counters(&created);
    let mut vm: Vm<()> = Vm::new(()).unwrap();
    vm.runtime_data.set_memory_limit(limit);
    let set = verif::counters(&vm.runtime_data);
    vm.clear();
    let set_cleared = verif::counters(&vm.runtime_data);
    if set != want || set_cleared != want {
        return Some(("limit-config/differs".into(), format!("limit {limit}: (allocated, next collection, limit) is {want:?} for a VM created with the limit, {set:?} after set_memory_limit, {set_cleared:?} after set_memory_limit and clear")));
    }
    None
}

impl Check for C17 {
    fn id(&self) -> &'static str {
        "C17"
    }
    fn info(&self, tier: Tier) -> CheckInfo {
        CheckInfo {
            rule: format!("{} programs on one VM with a 64 KiB limit and a 30000-instruction budget: ok-small, ok-allocating, gc-heavy (several collections), timeout, out-of-memory with live data, value-stack overflow, call-stack overflow, native error inside a callee with locals, leaves-globals, error with an open upvalue, stray values left on the stack, empty and one-byte strings, reads-global. BFS over histories of run(P_i) / clear to depth {}: a run on a fresh or cleared VM must equal the run of the same program on a new VM in result, globals, host log, instructions executed, accounted memory and object count after the run; after every clear the counters (allocated, next_gc, limit), both stack heights, globals, object list and open-upvalue list equal those of a new VM; programs that leave the stacks balanced may also follow each other without clear and must give the same outcome. Slot reuse: every ordered pair (A, B) of the programs held one after the other in one program variable (B takes A's address), with and without a clear in between: B equals B on a new VM. Repetition: every program 1..{} times with clear in between, balanced programs 1..{} times without clear. Canonical state = hook dump of counters, stack heights, globals, object count, open upvalues. Non-trivial = state with something run since the last clear", programs().len(), tier.pick(4, 6), tier.pick(300, 600), tier.pick(300, 600)),
            bound: format!("history depth {}, repetition {}", tier.pick(4, 6), tier.pick(300, 600)),
            exhaustive: true,
            assumptions: vec!["host-registered functions are the same on every VM".into()],
            explanation: "all runs are real Vm::run / Vm::clear calls; counters are read through the hook accessors".into(),
        }
    }
    fn units(&self, _tier: Tier) -> u64 {
        1 + 2 * programs().len() as u64
    }
    fn unit_timeout_s(&self, tier: Tier) -> u64 {
        tier.pick(55, 900)
    }
    fn run_unit(&self, tier: Tier, unit: u64, out: &mut ChunkResult) {
        if unit == 0 {
            // the two ways to give a VM its memory limit agree with each other and with a clear
            for limit in [0usize, 64, 4096, 32 * 1024, 64 * 1024, 400 * 1024, 1 << 20, 16 << 20] {
                out.evaluations += 1;
                if let Some((k, w)) = limit_config(limit) {
                    out.violation(Violation::new("C17", k, w, json!({"kind": "limit-config", "limit": limit})));
                }
            }
            // every ordered pair of programs through one program variable
            let n = programs().len();
            let mut k = 0u64;
            for i in 0..n {
                for j in 0..n {
                    for with_clear in [true, false] {
                        k += 1;
                        if k <= cvx_core::engine::skip_cases() {
                            continue;
                        }
                        cvx_core::engine::trace_case_at(k - 1, || json!({"kind": "slot-reuse", "a": i, "b": j, "with_clear": with_clear}));
                        out.evaluations += 1;
                        out.transitions += 2;
                        if let Some((k, w)) = slot_reuse(i, j, with_clear) {
                            out.violation(Violation::new("C17", k, w, json!({"kind": "slot-reuse", "a": i, "b": j, "with_clear": with_clear})));
                        }
                    }
                }
            }
            hist::bfs(&Sys, &cfg(tier.pick(4, 6), tier.pick(35, 600)), out);
            return;
        }
        let i = ((unit - 1) / 2) as usize;
        let with_clear = (unit - 1) % 2 == 0;
        let c = compiled();
        if !with_clear && !c.progs[i].3 {
            return;
        }
        let n = tier.pick(300, 600);
        out.evaluations += n as u64;
        out.traces += 1;
        out.transitions += n as u64;
        match repetition(i, with_clear, n) {
            None => {
                out.states += 1;
                out.nontrivial += 1;
                out.outcome(format!("repetition ok {}", if with_clear { "with clear" } else { "without clear" }));
            }
            Some((k, w)) => out.violation(Violation::new("C17", k, w, json!({"kind": "repetition", "program": i, "with_clear": with_clear, "n": n}))),
        }
    }
    fn replay(&self, case: &J) -> Option<Violation> {
        if case["kind"].as_str() == Some("limit-config") {
            return limit_config(case["limit"].as_u64()? as usize).map(|(k, w)| Violation::new("C17", k, w, case.clone()));
        }
        if case["kind"].as_str() == Some("slot-reuse") {
            return slot_reuse(case["a"].as_u64()? as usize, case["b"].as_u64()? as usize, case["with_clear"].as_bool()?).map(|(k, w)| Violation::new("C17", k, w, case.clone()));
        }
        if case["kind"].as_str() == Some("repetition") {
            let (i, wc, n) = (case["program"].as_u64()? as usize, case["with_clear"].as_bool()?, case["n"].as_u64()? as usize);
            return repetition(i, wc, n).map(|(k, w)| Violation::new("C17", k, w, case.clone()));
        }
        let h: Vec<Op> = serde_json::from_value(case["history"].clone()).ok()?;
        hist::replay(&Sys, &cfg(64, 3600), &h)
    }
}

#[allow(dead_code)]
fn _u(_: ir::Module) {}
