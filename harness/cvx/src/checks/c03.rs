//! C03 — the instruction budget bounds every run.
//!
//! For every program of a family of looping / recursing / callback-heavy programs and every
//! budget N in a swept range (plus the values around the exact need of the program), the real VM
//! is run with budget N; the per-dispatch counter of the hook (which also counts the instructions
//! of script functions that natives call back into) must stay <= N, a run that did not finish
//! must report Timeout, and a run with a sufficient budget must be identical to the unbounded run.

use crate::realrun::{self, CompileOutcome, RunCfg};
use cvx_core::engine::{Check, CheckInfo, ChunkResult, Tier, Violation};
use cvx_core::ir::{self, *};
use cvx_core::refsem;
use serde_json::{json, Value as J};

pub struct C03;

fn add(a: C, c: C) -> C {
    bin(BinOp::Add, a, c)
}
fn sink(c: C) -> C {
    sg("_sink", c)
}

/// key function (key, value) that spins `k` times (k < 0: forever) and returns the value
fn keyfn(name: &str, k: i64, extra: Vec<C>) -> (String, Func) {
    let mut cards = vec![sv("n", int(0))];
    if k < 0 {
        cards.push(C::While(b(int(1)), b(sv("n", add(rv("n"), int(1))))));
    } else {
        cards.push(C::Repeat { n: b(int(k)), i: None, body: b(sv("n", add(rv("n"), int(1)))) });
    }
    cards.extend(extra);
    cards.push(C::Return(b(rv("value"))));
    (name.to_string(), Func { params: vec!["key".into(), "value".into()], cards })
}

fn table3() -> Vec<C> {
    vec![sv("t", C::CreateTable), C::Append(b(int(3)), b(rv("t"))), C::Append(b(int(1)), b(rv("t"))), C::Append(b(int(2)), b(rv("t")))]
}

pub fn programs() -> Vec<(String, Module)> {
    let mut v: Vec<(String, Module)> = Vec::new();
    let m1 = |name: &str, main: Vec<C>, fns: Vec<(String, Func)>| -> (String, Module) {
        let mut functions = vec![("main".to_string(), func(&[], main))];
        functions.extend(fns);
        (name.to_string(), Module { submodules: vec![], functions, imports: vec![] })
    };
    v.push(m1("while-forever", vec![sv("x", int(0)), C::While(b(int(1)), b(sv("x", add(rv("x"), int(1))))), sg("never", int(1))], vec![]));
    v.push(m1("recursion-forever", vec![sg("r", call("f", vec![int(0)]))], vec![("f".into(), func(&["n"], vec![C::Return(b(call("f", vec![add(rv("n"), int(1))])))]))]));
    v.push(m1("repeat-million", vec![sv("x", int(0)), C::Repeat { n: b(int(1_000_000)), i: None, body: b(sv("x", add(rv("x"), int(1)))) }, sg("never", rv("x"))], vec![]));
    for k in [0i64, 1, 5, 50] {
        v.push(m1(&format!("repeat-{k}"), vec![sv("x", int(0)), C::Repeat { n: b(int(k)), i: Some("i".into()), body: b(sv("x", add(rv("x"), rv("i")))) }, sg("done", rv("x"))], vec![]));
    }
    // library functions backed by natives, with key functions that spin
    for f in ["sorted_by_key", "min_by_key", "max_by_key"] {
        for k in [0i64, 10, 100, -1] {
            let mut main = table3();
            main.push(sg("res", call(&format!("std.{f}"), vec![C::Function("kf".into()), rv("t")])));
            main.push(sg("done", int(1)));
            v.push(m1(&format!("{f}-spin{k}"), main, vec![keyfn("kf", k, vec![])]));
        }
    }
    // native -> script -> native nesting to depth 2 and 3, innermost key function spins
    for depth in [2usize, 3] {
        for k in [5i64, 60, -1] {
            let mut fns: Vec<(String, Func)> = vec![keyfn("kf0", k, vec![])];
            for d in 1..depth {
                let prev = format!("kf{}", d - 1);
                fns.push(keyfn(&format!("kf{d}"), 0, vec![sv("inner", C::CreateTable), C::Append(b(int(2)), b(rv("inner"))), C::Append(b(int(1)), b(rv("inner"))), sink(call("std.sorted_by_key", vec![C::Function(prev), rv("inner")]))]));
            }
            let mut main = table3();
            main.push(sg("res", call("std.sorted_by_key", vec![C::Function(format!("kf{}", depth - 1)), rv("t")])));
            main.push(sg("done", int(1)));
            v.push(m1(&format!("nested-sort-depth{depth}-spin{k}"), main, fns));
        }
    }
    // std.sorted / min / max (library key function) and the script-only library functions with spinning callbacks
    {
        let mut main = table3();
        main.push(sg("s", call("std.sorted", vec![rv("t")])));
        main.push(sg("mn", call("std.min", vec![rv("t")])));
        main.push(sg("mx", call("std.max", vec![rv("t")])));
        v.push(m1("sorted-min-max", main, vec![]));
    }
    for k in [3i64, 40, -1] {
        let cb = Func {
            params: vec!["k".into(), "v".into(), "i".into()],
            cards: vec![sv("n", int(0)), if k < 0 { C::While(b(int(1)), b(sv("n", add(rv("n"), int(1))))) } else { C::Repeat { n: b(int(k)), i: None, body: b(sv("n", add(rv("n"), int(1)))) } }, C::Return(b(rv("v")))],
        };
        let mut main = table3();
        main.push(sg("m", call("std.map", vec![C::Function("cb".into()), rv("t")])));
        main.push(sg("f", call("std.filter", vec![C::Function("cb".into()), rv("t")])));
        v.push(m1(&format!("map-filter-spin{k}"), main, vec![("cb".into(), cb)]));
    }
    // host functions re-entering the script
    for k in [2i64, 30, -1] {
        let spin = func(&["x"], vec![sv("n", int(0)), if k < 0 { C::While(b(int(1)), b(sv("n", add(rv("n"), int(1))))) } else { C::Repeat { n: b(int(k)), i: None, body: b(sv("n", add(rv("n"), int(1)))) } }, C::Return(b(add(rv("x"), rv("n"))))]);
        v.push(m1(&format!("reenter-spin{k}"), vec![sg("r", native("reenter1", vec![C::Function("spin".into()), int(5)])), sg("done", int(1))], vec![("spin".into(), spin)]));
    }
    {
        // recursion through the host function: f -> reenter1(f) -> f ... to depth 4, each level loops a little
        let f = func(
            &["n"],
            vec![sv("w", int(0)), C::Repeat { n: b(int(6)), i: None, body: b(sv("w", add(rv("w"), int(1)))) }, C::IfTrue(b(rv("n")), b(C::Return(b(native("reenter1", vec![C::Function("f".into()), bin(BinOp::Sub, rv("n"), int(1))]))))), C::Return(b(rv("w")))],
        );
        v.push(m1("reenter-recursive", vec![sg("r", call("f", vec![int(4)])), sg("done", int(1))], vec![("f".into(), f)]));
    }
    // a host function that swallows the error of the callback: the outer loop must still stop
    for k in [-1i64, 20] {
        let spin = func(&[], vec![sv("n", int(0)), if k < 0 { C::While(b(int(1)), b(sv("n", add(rv("n"), int(1))))) } else { C::Repeat { n: b(int(k)), i: None, body: b(sv("n", add(rv("n"), int(1)))) } }, C::Return(b(rv("n")))]);
        v.push(m1(
            &format!("try-call-spin{k}"),
            vec![sv("c", int(0)), C::Repeat { n: b(int(8)), i: None, body: b(comp(vec![sink(native("try_call", vec![C::Function("spin".into())])), sv("c", add(rv("c"), int(1)))])) }, sg("done", rv("c"))],
            vec![("spin".into(), spin)],
        ));
        v.push(m1(
            &format!("try-call-forever-outer-spin{k}"),
            vec![sv("c", int(0)), C::While(b(int(1)), b(comp(vec![sink(native("try_call", vec![C::Function("spin".into())])), sv("c", add(rv("c"), int(1)))])))],
            vec![("spin".into(), spin_clone(k))],
        ));
    }
    // a host function that swallows the error of a callback which works for a while and then FAILS
    // (not with Timeout): the instructions of the failed callee count like all others
    for k in [20i64, 100] {
        for (ename, fail) in [("getprop-on-int", sink(C::GetProperty(b(int(1)), b(int(0))))), ("missing-global", sink(rv("never_assigned"))), ("call-non-function", sink(C::DynCall(b(int(3)), vec![])))] {
            let worker = func(&[], vec![sv("n", int(0)), C::Repeat { n: b(int(k)), i: None, body: b(sv("n", add(rv("n"), int(1)))) }, fail.clone(), C::Return(b(rv("n")))]);
            v.push(m1(
                &format!("try-call-failing-worker{k}-{ename}"),
                vec![sv("c", int(0)), C::Repeat { n: b(int(8)), i: None, body: b(comp(vec![sink(native("try_call", vec![C::Function("worker".into())])), sv("c", add(rv("c"), int(1)))])) }, sg("done", rv("c"))],
                vec![("worker".into(), worker.clone())],
            ));
            v.push(m1(
                &format!("try-call-forever-outer-failing-worker{k}-{ename}"),
                vec![sv("c", int(0)), C::While(b(int(1)), b(comp(vec![sink(native("try_call", vec![C::Function("worker".into())])), sv("c", add(rv("c"), int(1)))])))],
                vec![("worker".into(), worker)],
            ));
        }
    }
    // natives invoked as function values (CallFunction dispatches to the native), in loops so that
    // a budget error per call accumulates
    for k in [4i64, 30, -1] {
        let spin1 = func(&["x"], vec![sv("n", int(0)), if k < 0 { C::While(b(int(1)), b(sv("n", add(rv("n"), int(1))))) } else { C::Repeat { n: b(int(k)), i: None, body: b(sv("n", add(rv("n"), int(1)))) } }, C::Return(b(add(rv("x"), rv("n"))))]);
        v.push(m1(
            &format!("dyn-native-reenter-spin{k}"),
            vec![sv("c", int(0)), C::Repeat { n: b(int(6)), i: None, body: b(comp(vec![sink(C::DynCall(b(C::NativeFunction("reenter1".into())), vec![C::Function("spin".into()), int(5)])), sv("c", add(rv("c"), int(1)))])) }, sg("done", rv("c"))],
            vec![("spin".into(), spin1.clone())],
        ));
        v.push(m1(
            &format!("dyn-native-variable-reenter-spin{k}"),
            vec![sv("f", C::NativeFunction("reenter1".into())), sv("c", int(0)), C::Repeat { n: b(int(6)), i: None, body: b(comp(vec![sink(C::DynCall(b(rv("f")), vec![C::Function("spin".into()), int(5)])), sink(native("log", vec![rv("c")])), sv("c", add(rv("c"), int(1)))])) }, sg("done", rv("c"))],
            vec![("spin".into(), spin1)],
        ));
        for nat in ["__sort", "__min", "__max"] {
            let mut main = table3();
            main.push(sv("c", int(0)));
            main.push(C::Repeat { n: b(int(5)), i: None, body: b(comp(vec![sink(C::DynCall(b(C::NativeFunction(nat.into())), vec![rv("t"), C::Function("kf".into())])), sink(native("log", vec![rv("c")])), sv("c", add(rv("c"), int(1)))])) });
            main.push(sg("done", rv("c")));
            v.push(m1(&format!("dyn-native{nat}-spin{k}"), main, vec![keyfn("kf", k, vec![])]));
        }
        let spin0 = spin_clone(k);
        v.push(m1(
            &format!("dyn-native-try-call-spin{k}"),
            vec![sv("c", int(0)), C::Repeat { n: b(int(8)), i: None, body: b(comp(vec![sink(C::DynCall(b(C::NativeFunction("try_call".into())), vec![C::Function("spin".into())])), sink(native("log", vec![rv("c")])), sv("c", add(rv("c"), int(1)))])) }, sg("done", rv("c"))],
            vec![("spin".into(), spin0)],
        ));
    }
    // closures and dynamic calls in loops
    v.push(m1(
        "closure-loop",
        vec![sv("acc", int(0)), sv("c", C::Closure(vec!["p".into()], vec![sv("acc", add(rv("acc"), rv("p"))), C::Return(b(rv("acc")))])), C::Repeat { n: b(int(12)), i: Some("i".into()), body: b(sink(C::DynCall(b(rv("c")), vec![rv("i")]))) }, sg("done", rv("acc"))],
        vec![],
    ));
    v
}

fn spin_clone(k: i64) -> Func {
    func(&[], vec![sv("n", int(0)), if k < 0 { C::While(b(int(1)), b(sv("n", add(rv("n"), int(1))))) } else { C::Repeat { n: b(int(k)), i: None, body: b(sv("n", add(rv("n"), int(1)))) } }, C::Return(b(rv("n")))])
}

fn innermost(kind: &str) -> &str {
    // "TaskFailure(a:TaskFailure(b:Timeout))" -> "Timeout"
    let k = kind.trim_end_matches(')');
    k.rsplit(':').next().unwrap_or(k)
}

const UNBOUNDED: u64 = 3_000_000;

fn check_program(name: &str, m: &Module, budgets: &[u64], out: &mut ChunkResult) -> Vec<Violation> {
    let mut vs = Vec::new();
    let natives = refsem::default_natives();
    let (co, prog) = realrun::compile_real(m);
    let (CompileOutcome::Ok, Some(prog)) = (co, prog) else {
        vs.push(Violation::new("C03", "compile", format!("{name} does not compile"), json!({"program": name})));
        return vs;
    };
    let base = realrun::run_program(m, &prog, &natives, &RunCfg { max_instr: UNBOUNDED, ..Default::default() });
    let needed = if innermost(&base.result) == "Timeout" { None } else { Some(base.instr_count) };
    let mut all: Vec<u64> = budgets.to_vec();
    if let Some(k) = needed {
        for d in 0..6u64 {
            all.push((k + d).saturating_sub(2).max(1));
        }
        all.push(k * 2 + 10);
    }
    if needed.is_some() {
        // the far end of the domain (N is a u64)
        all.extend([1u64 << 32, 1u64 << 63, u64::MAX - 1, u64::MAX]);
    }
    all.sort();
    all.dedup();
    for n in all {
        cvx_core::engine::trace_case(|| json!({"program": name, "budget": n}));
        out.evaluations += 1;
        out.traces += 1;
        let t0 = cvx_core::engine::self_cpu();
        // the budget is configured the way a host does it: through Vm::with_max_iter
        let got = realrun::run_program_builder(m, &prog, &natives, &RunCfg { max_instr: n, ..Default::default() });
        out.transitions += got.instr_count;
        let case = json!({"program": name, "budget": n});
        if let Some(p) = &got.panic {
            vs.push(Violation::new("C03", format!("panic:{name}"), format!("{name} with budget {n} panicked: {p}"), case));
            continue;
        }
        if got.instr_count > n {
            vs.push(Violation::new("C03", format!("over-budget:{name}"), format!("{name} with budget {n} executed {} instructions (result {})", got.instr_count, got.result), case.clone()));
        }
        let spent_ms = (cvx_core::engine::self_cpu() - t0).as_millis() as u64; // CPU time: independent of machine load
        if spent_ms > 200 + n / 100 {
            vs.push(Violation::new("C03", format!("slow:{name}"), format!("{name} with budget {n} took {spent_ms} ms of CPU time"), case.clone()));
        }
        let timed_out = innermost(&got.result) == "Timeout";
        match needed {
            Some(k) if n > k => {
                // the budget is sufficient: the run is unaffected
                if got.result != base.result || got.globals != base.globals || got.log != base.log {
                    vs.push(Violation::new("C03", format!("sufficient-budget-affects:{name}"), format!("{name} needs {k} instructions; with budget {n} the result is {} (unbounded: {}), globals equal: {}", got.result, base.result, got.globals == base.globals), case.clone()));
                }
            }
            Some(k) if n < k => {
                if !timed_out && !(got.result == base.result && base.result != "Ok") {
                    vs.push(Violation::new("C03", format!("finished-over-budget:{name}"), format!("{name} needs {k} instructions, budget {n}: result {} after {} instructions instead of Timeout", got.result, got.instr_count), case.clone()));
                }
            }
            Some(_) => {}
            None => {
                if !timed_out {
                    vs.push(Violation::new("C03", format!("no-timeout:{name}"), format!("{name} does not terminate on its own; with budget {n} the result is {}", got.result), case.clone()));
                }
            }
        }
        out.outcome(format!("{}", if timed_out { "Timeout" } else { innermost(&got.result) }));
        if !vs.is_empty() && vs.len() > 40 {
            break;
        }
    }
    if vs.is_empty() {
        out.states += 1;
        out.nontrivial += 1;
        out.sample(|| json!({"program": name, "needed": needed, "unbounded_result": base.result}));
    }
    vs
}

/// Two runs on one VM: whatever the first run did with its budget (used little of it, used it up,
/// failed), the second run is bounded by its own budget and unaffected when that is sufficient.
fn sequence_cases() -> Vec<(String, Module, u64, bool, String, Module, u64)> {
    let m1 = |main: Vec<C>| module(vec![("main", func(&[], main))]);
    let firsts: Vec<(&str, Module, u64)> = vec![
        ("short-run-big-budget", m1(vec![sg("a", int(1))]), 100_000),
        ("short-run-default-budget", m1(vec![sg("a", int(1))]), 1000),
        ("timed-out-run", m1(vec![sv("x", int(0)), C::While(b(int(1)), b(sv("x", add(rv("x"), int(1)))))]), 50),
        ("failed-run", m1(vec![sg("a", int(1)), sink(C::GetProperty(b(int(1)), b(int(2))))]), 5000),
        ("run-with-callbacks", {
            let mut main = table3();
            main.push(sg("res", call("std.sorted_by_key", vec![C::Function("kf".into()), rv("t")])));
            let mut fns = vec![("main".to_string(), func(&[], main))];
            fns.push(keyfn("kf", 3, vec![]));
            Module { submodules: vec![], functions: fns, imports: vec![] }
        }, 20_000),
    ];
    let seconds: Vec<(&str, Module, u64)> = vec![
        ("endless-60", m1(vec![sv("x", int(0)), C::While(b(int(1)), b(sv("x", add(rv("x"), int(1)))))]), 60),
        ("endless-7", m1(vec![sv("x", int(0)), C::While(b(int(1)), b(sv("x", add(rv("x"), int(1)))))]), 7),
        ("finite-fits", m1(vec![sv("x", int(0)), C::Repeat { n: b(int(20)), i: None, body: b(sv("x", add(rv("x"), int(1)))) }, sg("done", rv("x"))]), 1000),
    ];
    let mut v = Vec::new();
    for (n1, p1, b1) in firsts.iter() {
        for clear in [false, true] {
            for (n2, p2, b2) in seconds.iter() {
                v.push((n1.to_string(), p1.clone(), *b1, clear, n2.to_string(), p2.clone(), *b2));
            }
        }
    }
    v
}

fn run_sequence(c: &(String, Module, u64, bool, String, Module, u64)) -> Option<(String, String)> {
    let (n1, p1, b1, clear, n2, p2, b2) = c;
    let natives = refsem::default_natives();
    let (_, Some(prog1)) = realrun::compile_real(p1) else { return Some(("sequence:compile".into(), n1.clone())) };
    let (_, Some(prog2)) = realrun::compile_real(p2) else { return Some(("sequence:compile".into(), n2.clone())) };
    // what the second program does on a VM of its own
    let alone = realrun::run_program(p2, &prog2, &natives, &RunCfg { max_instr: *b2, ..Default::default() });
    cao_lang::verif::reset();
    let mut vm = realrun::new_vm(p1, &natives, &RunCfg { max_instr: *b1, ..Default::default() });
    let _ = vm.run(&prog1);
    if *clear {
        vm.clear();
    }
    vm.max_instr = *b2;
    cao_lang::verif::reset_instr_count();
    let r = vm.run(&prog2);
    let executed = cao_lang::verif::instr_count();
    let result = match &r {
        Ok(()) => "Ok".to_string(),
        Err(e) => realrun::payload_kind(&e.payload),
    };
    cao_lang::verif::reset();
    if executed > *b2 {
        return Some((format!("sequence:over-budget:{n2}"), format!("{n2} with budget {b2}, run after {n1} (budget {b1}{}) on the same VM, executed {executed} instructions (result {result})", if *clear { ", cleared in between" } else { "" })));
    }
    if result != alone.result {
        return Some((format!("sequence:result-differs:{n2}"), format!("{n2} with budget {b2} ends with {} on a VM of its own and with {result} after {n1} (budget {b1}{}) on the same VM", alone.result, if *clear { ", cleared in between" } else { "" })));
    }
    None
}

fn budgets(tier: Tier) -> Vec<u64> {
    (1..=tier.pick(300u64, 2000)).collect()
}

impl Check for C03 {
    fn id(&self) -> &'static str {
        "C03"
    }
    fn info(&self, tier: Tier) -> CheckInfo {
        CheckInfo {
            rule: format!("{} programs (endless while / recursion, huge and small Repeat, std.sorted_by_key / min_by_key / max_by_key with key functions that spin 0/10/100 times or forever, native->script->native nesting to depth 2 and 3, sorted/min/max, map/filter with spinning callbacks, host functions re-entering the script incl. recursion through the host to depth 4, a host function that swallows the callback's error inside finite and endless outer loops, closures in loops) x every budget N in 1..={} plus N = needed-2..needed+3 and 2*needed+10: the hook's dispatch counter (all nesting levels of _run) <= N; if the unbounded run needs K instructions then N > K => result, globals and host log identical to the unbounded run, N < K => Timeout (possibly wrapped in the TaskFailure of the native the callback ran under); programs that never finish => Timeout for every N; wall-clock per run bounded; plus two runs on one VM (first run: short with a big / default budget, timed out, failed, with callbacks; with and without clear in between; second run: endless loop with budget 60 / 7, a finite program that fits): the second run stays within its own budget and ends like on a VM of its own. 'states' = programs for which every budget held", programs().len(), tier.pick(300, 2000)),
            bound: format!("{} programs x ~{} budgets", programs().len(), tier.pick(307, 2007)),
            exhaustive: true,
            assumptions: vec!["a Timeout raised inside a callback under a native surfaces as TaskFailure(native: Timeout); that counts as reporting Timeout".into(), "the implementation stops one instruction early (budget N executes at most N-1); that satisfies 'at most N'".into()],
            explanation: "instructions are counted by the per-dispatch hook in the interpreter loop, independent of the VM's own countdown".into(),
        }
    }
    fn units(&self, _tier: Tier) -> u64 {
        programs().len() as u64 + 1
    }
    fn unit_timeout_s(&self, tier: Tier) -> u64 {
        tier.pick(40, 300)
    }
    fn run_unit(&self, tier: Tier, unit: u64, out: &mut ChunkResult) {
        let progs = programs();
        if unit as usize == progs.len() {
            for (i, c) in sequence_cases().iter().enumerate() {
                out.evaluations += 1;
                out.traces += 1;
                match run_sequence(c) {
                    None => out.nontrivial += 1,
                    Some((k, w)) => out.violation(Violation::new("C03", k, w, json!({"sequence": i}))),
                }
            }
            out.states += 1;
            out.outcome("two runs on one VM".to_string());
            return;
        }
        let (name, m) = &progs[unit as usize];
        for v in check_program(name, m, &budgets(tier), out) {
            out.violation(v);
        }
    }
    fn replay(&self, case: &J) -> Option<Violation> {
        if let Some(i) = case["sequence"].as_u64() {
            let cases = sequence_cases();
            return run_sequence(cases.get(i as usize)?).map(|(k, w)| Violation::new("C03", k, w, case.clone()));
        }
        let name = case["program"].as_str()?;
        let n = case["budget"].as_u64()?;
        let progs = programs();
        let (_, m) = progs.iter().find(|(p, _)| p == name)?;
        let mut out = ChunkResult::default();
        check_program(name, m, &[n], &mut out).into_iter().find(|v| v.case["budget"].as_u64() == Some(n))
    }
}

#[allow(dead_code)]
fn _u(_: ir::Module) {}
