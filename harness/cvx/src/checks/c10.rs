//! C10 — the compiler emits structurally valid bytecode.
//!
//! Every program compiled from the C01 / C04 / (later) C06 / C08 families is handed to the
//! independent verifier of `cvx_core::bcverify`, which decodes the whole artefact.

use crate::lower;
use crate::progcheck::{self, fnv, Judge, JR};
use crate::realrun::{self, CompileOutcome};
use cao_lang::prelude::*;
use cvx_core::bcverify::{self, BcInput};
use cvx_core::engine::{Check, CheckInfo, ChunkResult, Tier, Violation};
use cvx_core::gen_basic::{CfgLite, Family};
use cvx_core::ir::{Module, C};
use cvx_core::refsem::STD_FUNCTIONS;
use serde_json::Value as J;
use std::sync::OnceLock;

pub struct C10;
pub struct BcJudge;

pub fn bc_input(m: &Module, p: &CaoCompiledProgram) -> BcInput {
    let mut inp = BcInput { bytecode: p.bytecode.clone(), data: p.data.clone(), ..Default::default() };
    inp.labels = p.labels.0.iter().map(|(h, l)| (h.value(), l.pos)).collect();
    inp.var_ids = p
        .variables
        .ids
        .iter()
        .map(|(h, id)| (h.value(), serde_json::to_value(id).ok().and_then(|v| v.as_u64()).unwrap_or(u64::MAX) as u32))
        .collect();
    inp.var_names = p.variables.names.iter().map(|(h, n)| (h.value(), n.clone())).collect();
    inp.trace_keys = p.trace.iter().map(|(k, _)| *k).collect();
    // functions in flattening order, the injected library last
    let mut arities: Vec<u32> = Vec::new();
    fn go(m: &Module, out: &mut Vec<u32>) {
        for (_, f) in m.functions.iter() {
            out.push(f.params.len() as u32);
        }
        for (_, s) in m.submodules.iter() {
            go(s, out);
        }
    }
    go(m, &mut arities);
    debug_assert_eq!(arities.len(), lower::flatten_names(m).len());
    for (_, a) in STD_FUNCTIONS.iter() {
        arities.push(*a as u32);
    }
    let main_index = m.functions.iter().position(|(n, _)| n == "main").unwrap_or(0);
    inp.entry = Handle::from_u64(main_index as u64).value();
    inp.functions = arities.iter().enumerate().map(|(i, a)| (Handle::from_u64(i as u64).value(), *a)).collect();
    let mut globals: Vec<String> = Vec::new();
    m.walk_cards(&mut |c| {
        if let C::SetGlobal(n, _) = c {
            if !globals.contains(n) {
                globals.push(n.clone());
            }
        }
    });
    for n in globals.iter().chain(inp.var_names.iter().map(|x| &x.1)) {
        inp.name_handles.insert(n.clone(), Handle::from_bytes(n.as_bytes()).value());
    }
    for (_, id) in inp.var_ids.iter() {
        inp.id_handles.insert(*id, Handle::from_u32(*id).value());
    }
    inp.source_globals = globals;
    inp.disassembly = p.disassemble_string();
    inp
}

static TABLE: OnceLock<Vec<bcverify::Finding>> = OnceLock::new();

impl Judge for BcJudge {
    fn property(&self) -> &'static str {
        "C10"
    }
    fn judge(&self, m: &Module, _cfg: Option<&CfgLite>) -> JR {
        let table = TABLE.get_or_init(|| bcverify::check_table(&cao_lang::verif::instruction_table()));
        // an opcode the verifier does not know, or a renumbering, is a limitation of this harness
        // (its table must be updated), not a verdict on the compiler; a span that disagrees with
        // the operand width the compiler emits is a finding
        if let Some((k, w)) = table.iter().find(|(k, _)| k != "table/span") {
            cvx_core::engine::machinery_error(&format!("the bytecode verifier's opcode table is out of date ({k}: {w}); update cvx-core/src/bcverify.rs"));
        }
        if let Some((k, w)) = table.first() {
            return JR::Fail { class: k.clone(), what: w.clone() };
        }
        let (co, prog) = realrun::compile_real(m);
        let prog = match (co, prog) {
            (CompileOutcome::Ok, Some(p)) => p,
            (CompileOutcome::Err { kind, .. }, _) => return JR::Skip(format!("compile error {kind}")),
            _ => return JR::Skip("compile panic (C04)".into()),
        };
        let inp = bc_input(m, &prog);
        let r = std::panic::catch_unwind(|| bcverify::verify(&inp));
        match r {
            // a site-keyed finding ('!') must not hide any other finding of the same program
            Ok(findings) => match findings.iter().find(|(k, _)| !k.ends_with('!')).or(findings.first()) {
                Some((k, w)) => JR::Fail { class: k.clone(), what: format!("{w} ({} finding(s) in this program)", findings.len()) },
                None => JR::Pass { outcome: "wellformed".into(), fingerprint: fnv(&format!("{:?}", inp.bytecode)) },
            },
            Err(p) => JR::Fail { class: "verifier-panic".into(), what: cvx_core::engine::panic_message(&p) },
        }
    }
}

static QUICK: OnceLock<Vec<Box<dyn Family>>> = OnceLock::new();
static THOROUGH: OnceLock<Vec<Box<dyn Family>>> = OnceLock::new();

fn families(tier: Tier) -> &'static Vec<Box<dyn Family>> {
    use cvx_core::gen_basic::{FExpr, FNest, FStmt};
    use cvx_core::gen_c04::{FKinds, FNames, FShape};
    use cvx_core::gen_more::{FArray, FCall, FLimits};
    match tier {
        Tier::Quick => QUICK.get_or_init(|| {
            vec![
                Box::new(cvx_core::gen_resolve::FCallMain),
                Box::new(cvx_core::gen_c04::FDottedGlobals),
                Box::new(cvx_core::gen_closure::FClosureNest),
                Box::new(cvx_core::gen_closure::FClosure),
                Box::new(cvx_core::gen_resolve::FResolve),
                Box::new(FStmt::new(1)),
                Box::new(FStmt::new(2)),
                Box::new(FNest::new()),
                Box::new(FLimits::quick()),
                Box::new(FCall),
                Box::new(FArray),
                Box::new(FNames),
                Box::new(FShape::quick()),
                Box::new(FKinds),
                Box::new(FExpr::new()),
            ]
        }),
        Tier::Thorough => THOROUGH.get_or_init(|| {
            vec![
                Box::new(cvx_core::gen_resolve::FCallMain),
                Box::new(cvx_core::gen_c04::FDottedGlobals),
                Box::new(cvx_core::gen_closure::FClosureNest),
                Box::new(cvx_core::gen_closure::FClosure),
                Box::new(cvx_core::gen_resolve::FResolve),
                Box::new(FStmt::new(1)),
                Box::new(FStmt::new(2)),
                Box::new(FNest::new()),
                Box::new(FLimits::thorough()),
                Box::new(FCall),
                Box::new(FArray),
                Box::new(FNames),
                Box::new(FShape::thorough()),
                Box::new(FKinds),
                Box::new(FExpr::new()),
                Box::new(FStmt::new(3)),
            ]
        }),
    }
}

static JUDGE: BcJudge = BcJudge;

impl Check for C10 {
    fn id(&self) -> &'static str {
        "C10"
    }
    fn info(&self, tier: Tier) -> CheckInfo {
        let fams = families(tier);
        CheckInfo {
            rule: "every program that compiles, from the C06/C08 families (F-closure-nest, F-closure, F-resolve), the C01 families (F-stmt, F-nest, F-limits, F-call, F-array, F-expr) and the C04 compile-half families (F-names, F-shape, F-kinds: not restricted to well-scoped input), is decoded front to back by an independent verifier with its own opcode/operand-width table (cross-checked against the crate's table through the hook): last instruction Exit; every jump operand, every label (function, closure, card) an instruction start inside the program; string operands complete length-prefixed UTF-8 in the data section; FunctionPointer handles are functions of the source with the declared arity; Closure handles have labels and no two Closure instructions share one; local indices < 255; the five for-each indices distinct and repeated in the ForEach instruction; RegisterUpvalue only behind Closure/CopyLast; upvalue indices below the number registered by the innermost enclosing closure; global ids dense, ids<->names a bijection that covers the source's globals; trace keys are instruction starts and every instruction that can fail has one; the crate's disassembler walks the same boundaries. 'states' = distinct bytecode images per chunk".into(),
            bound: format!("families {:?}, {} programs", fams.iter().map(|f| format!("{}={}", f.name(), f.len())).collect::<Vec<_>>(), progcheck::total_cases(fams)),
            exhaustive: true,
            assumptions: vec!["programs the compiler rejects are skipped (their rejection is C04/C08's concern)".into()],
            explanation: "the artefact under test is the real compiler's output; the verifier never executes it".into(),
        }
    }
    fn units(&self, tier: Tier) -> u64 {
        progcheck::units_of(families(tier))
    }
    fn chunk(&self, _tier: Tier) -> u64 {
        4
    }
    fn unit_timeout_s(&self, _tier: Tier) -> u64 {
        60
    }
    fn run_unit(&self, tier: Tier, unit: u64, out: &mut ChunkResult) {
        progcheck::run_unit(&JUDGE, families(tier), tier, unit, out)
    }
    fn replay(&self, case: &J) -> Option<Violation> {
        progcheck::replay(&JUDGE, case)
    }
}
