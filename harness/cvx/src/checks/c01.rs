//! C01 — compiled programs compute what the card language defines.
//!
//! Bounded-exhaustive enumeration of program families (F-expr, F-stmt, F-nest); every program is
//! compiled and run on the real implementation and its observable outcome (result kind, globals
//! under their names, host-call log) is compared with the reference interpreter's.

use crate::progcheck::{self, fnv, Judge, JR};
use crate::realrun::{self, CompileOutcome, RunCfg};
use cvx_core::engine::{Check, CheckInfo, ChunkResult, Tier, Violation};
use cvx_core::gen_basic::{FExpr, FNest, FStmt, Family};
use cvx_core::gen_more::{FArray, FCall, FLimits, FLongLoop};
use cvx_core::ir::Module;
use cvx_core::refsem::{self, CompileVerdict, Ob, Outcome};
use cvx_core::region::{self, RegionOpts};
use serde_json::Value as J;
use std::sync::OnceLock;

pub struct C01;

pub struct SemJudge {
    pub property: &'static str,
    pub opts: RegionOpts,
}

/// first difference between the reference outcome and the real one
pub fn compare(exp: &Outcome, got: &realrun::RealOutcome) -> Option<(String, String)> {
    if let Some(p) = &got.panic {
        let class: String = p.chars().filter(|c| !c.is_ascii_digit()).take(50).collect();
        return Some((format!("panic:{class}"), format!("the run panicked: {p} (reference: {})", exp.result)));
    }
    if exp.result != got.result {
        return Some((format!("result:{}->{}", exp.result, got.result), format!("reference result {}, implementation {}", exp.result, got.result)));
    }
    if exp.log != got.log {
        let i = exp.log.iter().zip(got.log.iter()).position(|(a, b)| a != b).unwrap_or(exp.log.len().min(got.log.len()));
        let show = |l: &Vec<(String, Vec<Ob>)>| l.get(i).map(|(n, a)| format!("{n}({})", a.iter().map(|x| x.short()).collect::<Vec<_>>().join(", "))).unwrap_or_else(|| "<no call>".into());
        return Some(("host-log".into(), format!("host call #{i}: reference {}, implementation {} ({} vs {} calls)", show(&exp.log), show(&got.log), exp.log.len(), got.log.len())));
    }
    let mut names: Vec<&String> = exp.globals.keys().chain(got.globals.keys()).collect();
    names.sort();
    names.dedup();
    for n in names {
        let e = exp.globals.get(n).cloned().unwrap_or(Ob::Nil);
        let g = got.globals.get(n).cloned().unwrap_or(Ob::Nil);
        if e != g {
            return Some(("global".into(), format!("global {n}: reference {}, implementation {}", e.short(), g.short())));
        }
    }
    if let Some(c) = got.host_checks.first() {
        return Some(("host-reentry-heights".into(), c.clone()));
    }
    if let Some(p) = &got.clear_panic {
        return Some(("panic-in-clear".into(), format!("clearing / dropping the VM after the run panicked: {p}")));
    }
    None
}

impl Judge for SemJudge {
    fn property(&self) -> &'static str {
        self.property
    }
    fn judge(&self, m: &Module, cfg: Option<&cvx_core::gen_basic::CfgLite>) -> JR {
        if let Err(e) = region::check_module(m, self.opts) {
            return JR::Skip(format!("out-of-region: {}", e.split(':').next().unwrap_or("")));
        }
        let natives = refsem::default_natives();
        let interp = refsem::Interp::new(m, natives.clone());
        match interp.program().compile_verdict() {
            CompileVerdict::Ok => {}
            _ => return JR::Skip("reference: does not compile".into()),
        }
        let exp = interp.run();
        if let Some(u) = &exp.undefined {
            return JR::Skip(format!("undefined: {u}"));
        }
        let (co, prog) = realrun::compile_real(m);
        let prog = match (co, prog) {
            (CompileOutcome::Ok, Some(p)) => p,
            (CompileOutcome::Err { kind, .. }, _) => return JR::Fail { class: format!("compile-error:{kind}"), what: format!("a well-scoped program is rejected by the compiler: {kind}") },
            (CompileOutcome::Panic(p), _) => return JR::Fail { class: "compile-panic".into(), what: format!("the compiler panicked: {p}") },
            _ => return JR::Fail { class: "compile-none".into(), what: "no program".into() },
        };
        let got = realrun::run_program(m, &prog, &natives, &cfg.map(RunCfg::from).unwrap_or_default());
        match compare(&exp, &got) {
            Some((class, what)) => JR::Fail { class, what },
            None => {
                let fp = fnv(&format!("{}|{:?}|{:?}", exp.result, exp.globals, exp.log));
                JR::Pass { outcome: exp.result.clone(), fingerprint: fp }
            }
        }
    }
}

static QUICK: OnceLock<Vec<Box<dyn Family>>> = OnceLock::new();
static THOROUGH: OnceLock<Vec<Box<dyn Family>>> = OnceLock::new();

pub fn families(tier: Tier) -> &'static Vec<Box<dyn Family>> {
    match tier {
        Tier::Quick => QUICK.get_or_init(|| {
            vec![Box::new(FExpr::new()), Box::new(FStmt::new(1)), Box::new(FStmt::new(2)), Box::new(FNest::new()), Box::new(FLimits::quick()), Box::new(FCall), Box::new(FArray), Box::new(FLongLoop)]
        }),
        Tier::Thorough => THOROUGH.get_or_init(|| {
            vec![
                Box::new(FExpr::new()),
                Box::new(FStmt::new(1)),
                Box::new(FStmt::new(2)),
                Box::new(FNest::new()),
                Box::new(FLimits::thorough()),
                Box::new(FCall),
                Box::new(FArray),
                Box::new(FLongLoop),
                Box::new(FStmt::new(3)),
            ]
        }),
    }
}

static JUDGE: SemJudge = SemJudge { property: "C01", opts: RegionOpts { inline_array: false } };
static JUDGE_ARRAY: SemJudge = SemJudge { property: "C01", opts: RegionOpts { inline_array: true } };

fn judge_for(family: &str) -> &'static dyn Judge {
    if family == "F-array" {
        &JUDGE_ARRAY
    } else {
        &JUDGE
    }
}

impl Check for C01 {
    fn id(&self) -> &'static str {
        "C01"
    }
    fn info(&self, tier: Tier) -> CheckInfo {
        let fams = families(tier);
        CheckInfo {
            rule: "index -> program bijections: F-expr (every depth-1 expression over 11 binary cards, Not, Len, PopTable, GetProperty, Get and a 16-leaf operand alphabet incl. i64::MIN/MAX, reals, strings, tables; depth 2 over one representative per distinct depth-1 result), F-stmt (15 contexts: main, callees with 0-2 arguments and 0-2 caller locals, second-level callee, Repeat/ForEach/While bodies, IfTrue/IfElse branches, composite, closure body x ordered tuples of a ~65-statement alphabet, followed by an epilogue that logs every visible variable), F-nest (6 outer x 6 inner contexts x statement), F-long-loop (Repeat / While / ForEach in main or in a callee running 100..1000 iterations - more than the value stack is high - with a body that declares a local or assigns, n in {100, 250, 253..256, 300, 1000}, or has a value-producing card in statement position, n in {100, 300}). Oracle: reference interpreter outcome (result kind, globals by name, host-call log with deep-converted arguments). 'states'/'distinct_nontrivial' = distinct reference outcomes within a 1000-case chunk, summed over chunks".into(),
            bound: format!("families {:?}, {} programs", fams.iter().map(|f| format!("{}={}", f.name(), f.len())).collect::<Vec<_>>(), progcheck::total_cases(fams)),
            exhaustive: true,
            assumptions: vec![
                "programs the reference marks undefined (integer overflow, NaN comparisons, Get beyond the length, reads of never-assigned globals after another assignment, argument-count mismatches) are executed but not compared".into(),
                "inline Array operands are confined to the dedicated family of C04/C01-array (known compiler limitation, see KNOWN_FINDINGS)".into(),
                "instruction budget 100000, default stack sizes and memory limit".into(),
            ],
            explanation: "every case is executed on the real compiler and VM; the reference interpreter is the oracle only".into(),
        }
    }
    fn units(&self, tier: Tier) -> u64 {
        progcheck::units_of(families(tier))
    }
    fn chunk(&self, _tier: Tier) -> u64 {
        4
    }
    fn unit_timeout_s(&self, _tier: Tier) -> u64 {
        60
    }
    fn run_unit(&self, tier: Tier, unit: u64, out: &mut ChunkResult) {
        progcheck::run_unit_with(&judge_for, families(tier), tier, unit, out)
    }
    fn replay(&self, case: &J) -> Option<Violation> {
        progcheck::replay(judge_for(case["origin"]["family"].as_str().unwrap_or("")), case)
    }
}
