//! C15 — error locations identify the failing card and its call chain.

use crate::progcheck::{self, fnv, Judge, JR};
use crate::realrun::{self, CompileOutcome, RunCfg};
use cvx_core::engine::{Check, CheckInfo, ChunkResult, Tier, Violation};
use cvx_core::gen_basic::{CfgLite, Family};
use cvx_core::gen_errloc::{FCompileErrLoc, FErrInject};
use cvx_core::ir::{self, *};
use cvx_core::refsem::{self, CompileVerdict, Loc};
use serde_json::{json, Value as J};
use std::sync::OnceLock;

pub struct C15;
pub struct LocJudge;

fn card_at<'a>(m: &'a Module, l: &Loc) -> Option<&'a C> {
    let mut cur = m;
    for n in l.ns.iter() {
        cur = &cur.submodules.iter().find(|(x, _)| x == n)?.1;
    }
    let f = &cur.functions.get(l.function)?.1;
    let mut it = l.path.iter();
    let mut c = f.cards.get(*it.next()? as usize)?;
    for i in it {
        c = c.children().get(*i as usize).copied()?;
    }
    Some(c)
}

fn describe(m: &Module, l: &Loc) -> String {
    match card_at(m, l) {
        Some(c) => format!("{} at {}{}.{:?}", c.kind(), l.ns.iter().map(|n| format!("{n}.")).collect::<String>(), l.function, l.path),
        None => format!("<no card> at {}{}.{:?}", l.ns.iter().map(|n| format!("{n}.")).collect::<String>(), l.function, l.path),
    }
}

/// how the reported location relates to the expected one (finding class)
fn relation(m: &Module, want: &Loc, got: Option<&Loc>) -> String {
    let Some(got) = got else { return "missing".into() };
    if got.ns != want.ns || got.function != want.function {
        return "other-function".into();
    }
    if got.path.len() < want.path.len() && want.path[..got.path.len()] == got.path[..] {
        return "ancestor".into();
    }
    if got.path.len() > want.path.len() && got.path[..want.path.len()] == want.path[..] {
        return "descendant".into();
    }
    if card_at(m, got).is_none() {
        return "unresolvable".into();
    }
    "other-card".into()
}

/// first card the compiler has to reject (unknown function / empty variable name)
fn first_bad_card(m: &Module, prog: &refsem::Program) -> Option<Loc> {
    fn walk(c: &C, ns: &[String], f: usize, path: &mut Vec<u32>, prog: &refsem::Program, out: &mut Option<Loc>) {
        if out.is_some() {
            return;
        }
        // compile order: children first for every card that evaluates its children before itself
        let bad_self = match c {
            C::Call(n, _) | C::Function(n) => prog.resolve(ns, n).is_none(),
            C::ReadVar(n) | C::SetVar(n, _) | C::SetGlobal(n, _) => n.is_empty(),
            _ => false,
        };
        let kids_first = !matches!(c, C::Function(_) | C::ReadVar(_));
        let mut visit_kids = |out: &mut Option<Loc>, path: &mut Vec<u32>| {
            let kids = c.children();
            let order: Vec<usize> = match c {
                // the compiler emits the arguments of a dynamic call before the function value
                C::DynCall(..) => (1..kids.len()).chain(std::iter::once(0)).collect(),
                _ => (0..kids.len()).collect(),
            };
            for i in order {
                path.push(i as u32);
                walk(kids[i], ns, f, path, prog, out);
                path.pop();
            }
        };
        if kids_first {
            visit_kids(out, path);
        }
        if out.is_none() && bad_self {
            *out = Some(Loc { ns: ns.to_vec(), function: f, path: path.clone() });
        }
    }
    fn go(m: &Module, ns: &mut Vec<String>, prog: &refsem::Program, out: &mut Option<Loc>, main_first: bool) {
        for (fi, (name, f)) in m.functions.iter().enumerate() {
            if main_first != (ns.is_empty() && name == "main") {
                continue;
            }
            for (ci, c) in f.cards.iter().enumerate() {
                walk(c, ns, fi, &mut vec![ci as u32], prog, out);
            }
        }
        if !main_first {
            for (n, s) in m.submodules.iter() {
                ns.push(n.clone());
                go(s, ns, prog, out, false);
                ns.pop();
            }
        }
    }
    let mut out = None;
    // the entry function is compiled first, then the others in flattening order
    go(m, &mut Vec::new(), prog, &mut out, true);
    if out.is_none() {
        go(m, &mut Vec::new(), prog, &mut out, false);
    }
    out
}

/// `Module::lookup_submodule(namespace)` + `get_card(index)` on the real module find the card the
/// harness finds in its own tree
fn api_resolves_same(m: &Module, l: &Loc) -> Result<(), String> {
    let Some(want) = card_at(m, l) else { return Ok(()) };
    let real = crate::lower::module(m);
    let sub = if l.ns.is_empty() { Some(&real) } else { real.lookup_submodule(&l.ns.join(".")) };
    let Some(sub) = sub else {
        return Err(format!("lookup_submodule({:?}) finds nothing, the harness resolves {}", l.ns.join("."), describe(m, l)));
    };
    let idx = cao_lang::compiler::CardIndex::from_slice(l.function, &l.path);
    match sub.get_card(&idx) {
        Ok(c) => {
            let (a, b_) = (serde_json::to_string(&c.body).unwrap_or_default(), serde_json::to_string(&crate::lower::card(want).body).unwrap_or_default());
            if a != b_ {
                return Err(format!("the crate's get_card resolves {}.{}.{:?} to another card than the source tree holds there ({})", l.ns.join("."), l.function, l.path, describe(m, l)));
            }
            // the function lookup by name agrees as well
            let fname = sub.functions.get(l.function).map(|f| f.0.clone()).unwrap_or_default();
            let full = if l.ns.is_empty() { fname.clone() } else { format!("{}.{}", l.ns.join("."), fname) };
            if real.lookup_function(&full).map(|f| f.cards.len()) != sub.functions.get(l.function).map(|f| f.1.cards.len()) {
                return Err(format!("lookup_function({full:?}) does not find the function that holds {}", describe(m, l)));
            }
            Ok(())
        }
        Err(e) => Err(format!("the crate's get_card fails for {}.{}.{:?}: {e} (the harness resolves {})", l.ns.join("."), l.function, l.path, describe(m, l))),
    }
}

impl Judge for LocJudge {
    fn property(&self) -> &'static str {
        "C15"
    }
    fn judge(&self, m: &Module, cfg: Option<&CfgLite>) -> JR {
        let natives = refsem::default_natives();
        let interp = refsem::Interp::new(m, natives.clone());
        let verdict = interp.program().compile_verdict();
        let (co, prog) = realrun::compile_real(m);
        if let CompileVerdict::MustFail(kinds) = &verdict {
            // compile errors attributable to a card
            let want = first_bad_card(m, interp.program());
            return match (co, want) {
                (CompileOutcome::Err { kind, loc }, Some(want)) if kinds.iter().any(|k| k == "InvalidJump" || k == "EmptyVariable") => {
                    if loc.as_ref() == Some(&want) {
                        JR::Pass { outcome: format!("compile-loc:{kind}"), fingerprint: fnv(&format!("{want:?}")) }
                    } else {
                        JR::Fail {
                            class: format!("compile-loc:{}:{}", card_at(m, &want).map(|c| c.kind()).unwrap_or("?"), relation(m, &want, loc.as_ref())),
                            what: format!("{kind}: the error location is {}, the offending card is {}", loc.as_ref().map(|l| describe(m, l)).unwrap_or_else(|| "<none>".into()), describe(m, &want)),
                        }
                    }
                }
                _ => JR::Skip("compile error not attributable to a card".into()),
            };
        }
        let prog = match (co, prog) {
            (CompileOutcome::Ok, Some(p)) => p,
            _ => return JR::Skip("does not compile".into()),
        };
        let exp = interp.run();
        if exp.undefined.is_some() {
            return JR::Skip("undefined".into());
        }
        let Some(err) = &exp.error else { return JR::Skip("no error raised".into()) };
        let got = realrun::run_program(m, &prog, &natives, &cfg.map(RunCfg::from).unwrap_or_default());
        if got.result != exp.result {
            return JR::Fail { class: format!("kind:{}->{}", exp.result, got.result), what: format!("reference error {}, implementation {}", exp.result, got.result) };
        }
        let t0 = got.trace.first();
        if t0 != Some(&err.at) {
            return JR::Fail {
                class: format!("trace0:{}:{}", card_at(m, &err.at).map(|c| c.kind()).unwrap_or("?"), relation(m, &err.at, t0)),
                what: format!("{}: trace[0] is {}, the card that raised the error is {}", exp.result, t0.map(|l| describe(m, l)).unwrap_or_else(|| "<missing>".into()), describe(m, &err.at)),
            };
        }
        let rest = &got.trace[1..];
        if rest.len() < err.chain.len() || rest[..err.chain.len()] != err.chain[..] {
            let i = rest.iter().zip(err.chain.iter()).position(|(a, b)| a != b).unwrap_or(rest.len().min(err.chain.len()));
            return JR::Fail {
                class: format!("chain:{}:{}", err.chain.get(i).and_then(|l| card_at(m, l)).map(|c| c.kind()).unwrap_or("?"), err.chain.get(i).map(|w| relation(m, w, rest.get(i))).unwrap_or_else(|| "extra".into())),
                what: format!("{}: call chain entry #{i} is {}, expected {} (chain length {} vs {})", exp.result, rest.get(i).map(|l| describe(m, l)).unwrap_or_else(|| "<missing>".into()), err.chain.get(i).map(|l| describe(m, l)).unwrap_or_else(|| "<none>".into()), rest.len(), err.chain.len()),
            };
        }
        // the statement says "resolves, in the source module it was compiled from": every judged
        // entry must resolve to that very card through the crate's own lookup API as well
        for l in got.trace.iter().take(1 + err.chain.len()) {
            if let Err(w) = api_resolves_same(m, l) {
                return JR::Fail { class: "api-resolution".into(), what: w };
            }
        }
        if rest.len() > err.chain.len() + 1 {
            return JR::Fail { class: "chain:too-long".into(), what: format!("{} trace entries after the call chain of {} (at most the program entry is allowed)", rest.len() - err.chain.len(), err.chain.len()) };
        }
        JR::Pass { outcome: format!("{} depth{}", exp.result.split('(').next().unwrap_or(""), err.chain.len()), fingerprint: fnv(&format!("{:?}{:?}", err.at, err.chain)) }
    }
}

// ---- resource errors with a constructively known location -----------------------------------------

struct ResCase {
    name: &'static str,
    module: Module,
    cfg: CfgLite,
    kind: &'static str,
    /// acceptable first trace entries
    allowed: Vec<Loc>,
    /// every following entry must be one of these (call cards), except the optional last one
    chain_allowed: Vec<Loc>,
}

fn loc(function: usize, path: &[u32]) -> Loc {
    Loc { ns: vec![], function, path: path.to_vec() }
}

fn subtree(m: &Module, root: &Loc) -> Vec<Loc> {
    fn go(c: &C, l: &mut Loc, out: &mut Vec<Loc>) {
        out.push(l.clone());
        for (i, ch) in c.children().into_iter().enumerate() {
            l.path.push(i as u32);
            go(ch, l, out);
            l.path.pop();
        }
    }
    let mut out = Vec::new();
    if let Some(c) = card_at(m, root) {
        go(c, &mut root.clone(), &mut out);
    }
    out
}

fn res_cases() -> Vec<ResCase> {
    let add = |a: C, c: C| bin(BinOp::Add, a, c);
    let mut v = Vec::new();
    // call-stack exhaustion by unbounded recursion: raised by the recursive Call card
    let m = module(vec![("main", func(&[], vec![sv("x", int(1)), sg("r", call("rec", vec![rv("x")]))])), ("rec", func(&["n"], vec![sv("k", add(rv("n"), int(1))), C::Return(b(call("rec", vec![rv("k")])))]))]);
    for cs in [3usize, 4, 8, 64, 65, 66, 67, 100, 200, 256] {
        v.push(ResCase { name: "call-depth", module: m.clone(), cfg: CfgLite { call_stack: cs, stack: 4096, ..Default::default() }, kind: "CallStackOverflow", allowed: vec![loc(1, &[1, 0])], chain_allowed: vec![loc(1, &[1, 0]), loc(0, &[1, 0])] });
    }
    // an ordinary error below a long chain of calls: every call card of the chain is reported, however long it is
    for d in [1usize, 2, 7, 31, 62, 63, 64, 65, 66, 100, 127, 128, 129, 200, 250] {
        let m = module(vec![
            ("main", func(&[], vec![sg("r", call("rec", vec![int(0)]))])),
            ("rec", func(&["n"], vec![C::IfTrue(b(bin(BinOp::Less, rv("n"), int(d as i64))), b(C::Return(b(call("rec", vec![add(rv("n"), int(1))]))))), C::Return(b(C::GetProperty(b(int(1)), b(int(2)))))])),
        ]);
        v.push(ResCase { name: Box::leak(format!("deep-chain-{d}").into_boxed_str()), module: m, cfg: CfgLite { stack: 4096, ..Default::default() }, kind: "InvalidArgument", allowed: vec![loc(1, &[1, 0])], chain_allowed: vec![loc(1, &[0, 1, 0]), loc(0, &[0, 0])] });
    }
    // value-stack exhaustion: 1 + (1 + (1 + ...)): with a stack that holds h values the (h+1)-th literal raises
    for depth in [3usize, 5, 9] {
        let mut e = int(1);
        for _ in 0..depth {
            e = add(int(1), e);
        }
        let m = module(vec![("main", func(&[], vec![sg("g", e)]))]);
        for size in 2..=depth + 1 {
            // `size` slots hold size-1 values; literals are pushed outermost first
            let holds = size - 1;
            let mut p: Vec<u32> = vec![0, 0];
            for _ in 0..holds {
                p.push(1);
            }
            // the (holds+1)-th literal: `holds` steps to the right, then the left operand (or the innermost literal)
            let mut lit = p.clone();
            if holds < depth {
                lit.push(0);
            }
            v.push(ResCase { name: "value-stack", module: m.clone(), cfg: CfgLite { stack: size, ..Default::default() }, kind: "Stackoverflow", allowed: vec![loc(0, &lit)], chain_allowed: vec![] });
        }
    }
    // out of memory with *live* data (garbage is reclaimed before the limit is reported): every
    // iteration stores a freshly allocated object into a table that stays reachable. The cards
    // that allocate are the producing card and the SetProperty that grows the table: one of the
    // two has to be named. For integer values only the SetProperty / AppendTable card allocates.
    let keep = |value: C, prelude: Vec<C>| -> Module {
        let mut cards = vec![sg("t", C::CreateTable)];
        cards.extend(prelude);
        cards.push(C::Repeat { n: b(int(1_000_000)), i: Some("i".into()), body: b(C::SetProperty(b(value), b(rv("t")), b(rv("i")))) });
        module(vec![("main", func(&[], cards)), ("f", func(&[], vec![C::Return(b(int(1)))]))])
    };
    let allocators: Vec<(&'static str, Module, Vec<Vec<u32>>, &'static str)> = vec![
        // (name, program, paths of the cards that may be named, error kind)
        ("oom-set-property", keep(rv("i"), vec![]), vec![vec![1, 1]], "OutOfMemory"),
        ("oom-string", keep(s("a string literal that allocates sixty-odd bytes on every iteration....."), vec![]), vec![vec![1, 1, 0], vec![1, 1]], "OutOfMemory"),
        ("oom-create-table", keep(C::CreateTable, vec![]), vec![vec![1, 1, 0], vec![1, 1]], "OutOfMemory"),
        ("oom-closure", keep(C::Closure(vec![], vec![C::Return(b(int(1)))]), vec![]), vec![vec![1, 1, 0], vec![1, 1]], "OutOfMemory"),
        ("oom-function", keep(C::Function("f".into()), vec![]), vec![vec![1, 1, 0], vec![1, 1]], "OutOfMemory"),
        ("oom-native-function", keep(C::NativeFunction("echo".into()), vec![]), vec![vec![1, 1, 0], vec![1, 1]], "OutOfMemory"),
        ("oom-get-row", keep(C::Get(b(rv("src")), b(int(0))), vec![sv("src", C::CreateTable), C::Append(b(int(1)), b(rv("src")))]), vec![vec![3, 1, 0], vec![3, 1]], "OutOfMemory"),
    ];
    for (name, m, paths, kind) in allocators {
        for limit in [2000usize, 3000, 5000, 20000] {
            v.push(ResCase { name, module: m.clone(), cfg: CfgLite { mem_limit: limit, max_instr: 100_000_000, ..Default::default() }, kind, allowed: paths.iter().map(|p| loc(0, p)).collect(), chain_allowed: vec![] });
        }
    }
    {
        let m = module(vec![("main", func(&[], vec![sg("t", C::CreateTable), C::Repeat { n: b(int(1_000_000)), i: Some("i".into()), body: b(C::Append(b(rv("i")), b(rv("t")))) }]))]);
        for limit in [2000usize, 5000] {
            v.push(ResCase { name: "oom-append", module: m.clone(), cfg: CfgLite { mem_limit: limit, max_instr: 100_000_000, ..Default::default() }, kind: "OutOfMemory", allowed: vec![loc(0, &[1, 1])], chain_allowed: vec![] });
        }
        // allocation inside a host function: the error is a task failure of that function at the CallNative card
        let m = module(vec![("main", func(&[], vec![sg("t", C::CreateTable), C::Repeat { n: b(int(1_000_000)), i: Some("i".into()), body: b(C::SetProperty(b(native("pack2", vec![int(1), int(2)])), b(rv("t")), b(rv("i")))) }]))]);
        for limit in [3000usize, 20000] {
            v.push(ResCase { name: "oom-host-alloc", module: m.clone(), cfg: CfgLite { mem_limit: limit, max_instr: 100_000_000, ..Default::default() }, kind: "*OutOfMemory", allowed: vec![loc(0, &[1, 1, 0]), loc(0, &[1, 1])], chain_allowed: vec![] });
        }
    }
    // timeout: some card of the loop (or of the callee it calls) is reported
    let m = module(vec![("main", func(&[], vec![sv("x", int(0)), C::While(b(int(1)), b(sv("x", add(rv("x"), int(1))))), sg("never", int(1))]))]);
    for budget in [10u64, 11, 12, 13, 14, 15, 50, 51] {
        let allowed = subtree(&m, &loc(0, &[1]));
        v.push(ResCase { name: "timeout-loop", module: m.clone(), cfg: CfgLite { max_instr: budget, ..Default::default() }, kind: "Timeout", allowed, chain_allowed: vec![] });
    }
    let m = module(vec![("main", func(&[], vec![sg("r", call("spin", vec![]))])), ("spin", func(&[], vec![sv("x", int(0)), C::While(b(int(1)), b(sv("x", add(rv("x"), int(1)))))]))]);
    for budget in [20u64, 21, 22, 23, 24, 40] {
        let allowed = subtree(&m, &loc(1, &[1]));
        v.push(ResCase { name: "timeout-in-callee", module: m.clone(), cfg: CfgLite { max_instr: budget, ..Default::default() }, kind: "Timeout", allowed, chain_allowed: vec![loc(0, &[0, 0])] });
    }
    // every budget on loops whose bodies are Comment cards: whatever instruction the budget ends
    // on belongs to the loop card, its count / iterable expression or a neighbouring statement -
    // never to the Comment, which emits no code
    let not_comment = |m: &Module, top: usize| -> Vec<Loc> {
        let mut all = Vec::new();
        for i in 0..top {
            all.extend(subtree(m, &loc(0, &[i as u32])));
        }
        all.into_iter().filter(|l| !matches!(card_at(m, l), Some(C::Comment(_)))).collect()
    };
    let note = || C::Comment("nothing to do".into());
    let loops: Vec<(&'static str, Module, usize)> = vec![
        ("timeout-sweep-repeat", module(vec![("main", func(&[], vec![sv("a", int(1)), C::Repeat { n: b(add(int(1), int(2))), i: Some("i".into()), body: b(note()) }, sg("after", rv("a"))]))]), 3),
        ("timeout-sweep-repeat-anonymous", module(vec![("main", func(&[], vec![C::Repeat { n: b(int(3)), i: None, body: b(note()) }, sg("after", int(1))]))]), 2),
        ("timeout-sweep-foreach", module(vec![("main", func(&[], vec![sv("t", C::Array(vec![int(1), int(2)])), C::ForEach { i: Some("i".into()), k: Some("k".into()), v: Some("v".into()), iterable: b(rv("t")), body: b(note()) }, sg("after", int(1))]))]), 3),
        ("timeout-sweep-nested", module(vec![("main", func(&[], vec![C::Repeat { n: b(int(2)), i: Some("i".into()), body: b(C::Repeat { n: b(int(2)), i: Some("j".into()), body: b(comp(vec![note(), note()])) }) }, sg("after", int(1))]))]), 2),
        ("timeout-sweep-while", module(vec![("main", func(&[], vec![sv("x", int(0)), C::While(b(bin(BinOp::Less, rv("x"), int(0))), b(note())), C::IfTrue(b(int(1)), b(note())), sg("after", int(1))]))]), 4),
    ];
    // every budget on a chain of calls main -> f -> g: whatever instruction the budget ends on
    // (also the call and return instructions themselves), the entries behind the first one are
    // the call cards that lead to the function the first entry lies in
    {
        let m = module(vec![
            ("main", func(&[], vec![sg("a", int(1)), sg("r", call("f", vec![int(3)])), sg("after", int(1))])),
            ("f", func(&["x"], vec![sv("fl", add(rv("x"), int(1))), sg("c", call("g", vec![rv("fl")])), C::Return(b(rv("fl")))])),
            ("g", func(&["y"], vec![sv("gl", add(rv("y"), int(1))), sg("d", rv("gl")), C::Return(b(rv("gl")))])),
        ]);
        let mut allowed = Vec::new();
        for (fi, n) in [(0usize, 3u32), (1, 3), (2, 3)] {
            for i in 0..n {
                allowed.extend(subtree(&m, &loc(fi, &[i])));
            }
        }
        for budget in 1..=70u64 {
            v.push(ResCase { name: "timeout-chain", module: m.clone(), cfg: CfgLite { max_instr: budget, ..Default::default() }, kind: "?Timeout", allowed: allowed.clone(), chain_allowed: vec![loc(1, &[1, 0]), loc(0, &[1, 0])] });
        }
        // the same chain with callees that run off their end (their locals are popped by the
        // instructions the compiler emits for the end of the scope)
        let m = module(vec![
            ("main", func(&[], vec![sg("a", int(1)), sg("r", call("f", vec![int(3)])), sg("after", int(1))])),
            ("f", func(&["x"], vec![sv("fl", add(rv("x"), int(1))), sg("c", call("g", vec![rv("fl")])), sv("fl2", int(2))])),
            ("g", func(&["y"], vec![sv("gl", add(rv("y"), int(1))), sg("d", rv("gl")), sv("gl2", rv("gl"))])),
        ]);
        let mut allowed = Vec::new();
        for (fi, n) in [(0usize, 3u32), (1, 3), (2, 3)] {
            for i in 0..n {
                allowed.extend(subtree(&m, &loc(fi, &[i])));
            }
        }
        for budget in 1..=70u64 {
            v.push(ResCase { name: "timeout-chain", module: m.clone(), cfg: CfgLite { max_instr: budget, ..Default::default() }, kind: "?Timeout", allowed: allowed.clone(), chain_allowed: vec![loc(1, &[1, 0]), loc(0, &[1, 0])] });
        }
    }
    for (name, m, top) in loops {
        let allowed = not_comment(&m, top);
        for budget in 1..=90u64 {
            v.push(ResCase { name, module: m.clone(), cfg: CfgLite { max_instr: budget, ..Default::default() }, kind: "?Timeout", allowed: allowed.clone(), chain_allowed: vec![] });
        }
    }
    v
}

/// every budget 1..70 on a chain of calls main -> f -> g: the entries behind the first one are the call cards leading to the function the first entry lies in (also when the budget ends on a call or return instruction); compile errors raised by a loop card itself (an empty loop variable name): (module, the loop card)
fn loop_name_cases() -> Vec<(Module, Loc)> {
    let mut v = Vec::new();
    let empty = || Some(String::new());
    let ok = |n: &str| Some(n.to_string());
    let body = || sg("g", int(1));
    let loops: Vec<C> = vec![
        C::Repeat { n: b(int(2)), i: empty(), body: b(body()) },
        C::ForEach { i: empty(), k: ok("k"), v: ok("v"), iterable: b(C::CreateTable), body: b(body()) },
        C::ForEach { i: ok("i"), k: empty(), v: ok("v"), iterable: b(C::CreateTable), body: b(body()) },
        C::ForEach { i: None, k: None, v: empty(), iterable: b(C::CreateTable), body: b(body()) },
    ];
    for l in loops {
        // at top level behind another statement, inside a composite, inside another loop's body, in a callee
        v.push((module(vec![("main", func(&[], vec![sv("a", int(1)), l.clone()]))]), loc(0, &[1])));
        v.push((module(vec![("main", func(&[], vec![comp(vec![sv("a", int(1)), sv("bb", int(2)), l.clone()])]))]), loc(0, &[0, 2])));
        v.push((module(vec![("main", func(&[], vec![C::Repeat { n: b(int(1)), i: Some("outer".into()), body: b(l.clone()) }]))]), loc(0, &[0, 1])));
        v.push((module(vec![("main", func(&[], vec![sg("r", call("f", vec![]))])), ("f", func(&[], vec![sv("a", int(1)), sv("bb", int(1)), l.clone()]))]), loc(1, &[2])));
    }
    v
}

fn run_loop_name_case(m: &Module, want: &Loc) -> Option<(String, String)> {
    let (co, _) = realrun::compile_real(m);
    match co {
        CompileOutcome::Err { loc: got, kind } => {
            if got.as_ref() != Some(want) {
                return Some((format!("compile-loc:loop-variable:{}", relation(m, want, got.as_ref())), format!("{kind}: the error location is {}, the loop card with the empty variable name is {}", got.as_ref().map(|l| describe(m, l)).unwrap_or_else(|| "<missing>".into()), describe(m, want))));
            }
            None
        }
        CompileOutcome::Ok => Some(("compile-loc:loop-variable:accepted".into(), format!("a loop with an empty variable name compiles ({})", describe(m, want)))),
        other => Some(("compile-loc:loop-variable:panic".into(), format!("{other:?}"))),
    }
}

fn run_res_case(c: &ResCase) -> Option<(String, String)> {
    let natives = refsem::default_natives();
    let (co, prog) = realrun::compile_real(&c.module);
    let (CompileOutcome::Ok, Some(prog)) = (co, prog) else { return Some(("resource:compile".into(), format!("{}: does not compile", c.name))) };
    let got = realrun::run_program(&c.module, &prog, &natives, &RunCfg::from(&c.cfg));
    // '?' = the error is optional: a run that ends Ok (the budget was sufficient) is not judged
    if let Some(k) = c.kind.strip_prefix('?') {
        if got.result == "Ok" {
            return None;
        }
        if got.result != k {
            return Some((format!("resource:{}:kind:{}", c.name, got.result), format!("{} with {:?}: expected {k} or Ok, got {}", c.name, c.cfg, got.result)));
        }
    }
    let kind_ok = match c.kind.strip_prefix('*') {
        Some(k) => got.result == k || got.result.ends_with(&format!(":{k})")),
        None => got.result == c.kind.trim_start_matches('?'),
    };
    if !kind_ok {
        return Some((format!("resource:{}:kind:{}", c.name, got.result), format!("{} with {:?}: expected {}, got {}", c.name, c.cfg, c.kind, got.result)));
    }
    let t0 = got.trace.first();
    // the instructions behind the last card of a function (its implicit return / the exit of main)
    // belong to no card: a budget that ends there is reported one past the last card and not judged
    if c.kind.starts_with('?') {
        if let Some(l) = t0 {
            let cards = c.module.functions.get(l.function).map(|f| f.1.cards.len()).unwrap_or(0);
            if l.ns.is_empty() && l.path.len() == 1 && l.path[0] as usize == cards {
                return None;
            }
        }
    }
    if !t0.map(|l| c.allowed.contains(l)).unwrap_or(false) {
        let want = &c.allowed[0];
        return Some((
            format!("resource:{}:trace0:{}", c.name, relation(&c.module, want, t0)),
            format!("{} with {:?}: trace[0] is {}, the card that raised {} is {}", c.name, c.cfg, t0.map(|l| describe(&c.module, l)).unwrap_or_else(|| "<missing>".into()), c.kind, describe(&c.module, want)),
        ));
    }
    let rest = &got.trace[1..];
    if c.name == "timeout-chain" {
        // ground truth for "which function was executing": the call depth at every dispatched
        // instruction of an unbounded run; budget N ends on the N-th instruction
        let depths: Vec<usize> = {
            let seq: std::rc::Rc<std::cell::RefCell<Vec<usize>>> = Default::default();
            let s2 = seq.clone();
            cao_lang::verif::reset();
            let mut vm = realrun::new_vm(&c.module, &natives, &RunCfg { max_instr: 1_000_000, ..Default::default() });
            cao_lang::verif::set_on_instr(Some(Box::new(move |ev, rt| {
                if !ev.post {
                    s2.borrow_mut().push(cao_lang::verif::call_depth(rt));
                }
            })));
            let _ = vm.run(&prog);
            cao_lang::verif::set_on_instr(None);
            cao_lang::verif::reset();
            let v = seq.borrow().clone();
            v
        };
        if std::env::var("CVX_C15_SHOW").is_ok() {
            eprintln!("C15SHOW budget {} depth {:?} result {} trace {:?}", c.cfg.max_instr, depths.get(c.cfg.max_instr as usize - 1), got.result, got.trace.iter().map(|l| format!("{}.{:?}", l.function, l.path)).collect::<Vec<_>>());
        }
        if let (Some(l), Some(depth)) = (t0, depths.get(c.cfg.max_instr as usize - 1)) {
            // depth 1 = main, 2 = f, 3 = g
            if l.function + 1 != *depth {
                return Some((
                    format!("resource:{}:wrong-function", c.name),
                    format!("{} with {:?}: the budget ends on an instruction executed at call depth {depth} (function #{}), trace[0] is {} in function #{}", c.name, c.cfg, depth - 1, describe(&c.module, l), l.function),
                ));
            }
        }
        // the call cards that lead to the function of the first entry, innermost first
        let want: Vec<Loc> = match t0.map(|l| l.function) {
            Some(2) => vec![loc(1, &[1, 0]), loc(0, &[1, 0])],
            Some(1) => vec![loc(0, &[1, 0])],
            _ => vec![],
        };
        let got_chain: Vec<Loc> = rest.iter().take(want.len()).cloned().collect();
        if got_chain != want || rest.len() > want.len() + 1 {
            return Some((
                format!("resource:{}:chain-vs-function", c.name),
                format!("{} with {:?}: trace[0] is {} (function {}), the entries behind it are [{}], the call chain of that function is [{}]", c.name, c.cfg, t0.map(|l| describe(&c.module, l)).unwrap_or_default(), t0.map(|l| l.function).unwrap_or(0), rest.iter().map(|l| describe(&c.module, l)).collect::<Vec<_>>().join("; "), want.iter().map(|l| describe(&c.module, l)).collect::<Vec<_>>().join("; ")),
            ));
        }
        return None;
    }
    // chains whose exact length is known by construction
    let exact: Option<Vec<Loc>> = match c.name {
        // main called rec(0), rec(n) called rec(n + 1) for n = 0 .. d-1
        n if n.starts_with("deep-chain-") => {
            let d: usize = n["deep-chain-".len()..].parse().unwrap_or(0);
            let mut w = vec![loc(1, &[0, 1, 0]); d];
            w.push(loc(0, &[0, 0]));
            Some(w)
        }
        // the call stack holds `call_stack` frames: main and call_stack - 1 activations of rec, the
        // innermost of which raised the error on its own call card
        "call-depth" => {
            let f = c.cfg.call_stack;
            let mut w = vec![loc(1, &[1, 0]); f.saturating_sub(2)];
            w.push(loc(0, &[1, 0]));
            Some(w)
        }
        _ => None,
    };
    if let Some(want) = exact {
        let ok = rest.len() >= want.len() && rest.len() <= want.len() + 1 && rest[..want.len()] == want[..];
        if !ok {
            let first_bad = rest.iter().zip(want.iter()).position(|(a, b)| a != b);
            return Some((
                format!("resource:{}:chain-length", c.name),
                format!("{} with {:?}: the active chain has {} call cards (innermost first: {} x the recursive call, then the call in main), the trace lists {} entries behind the first one{}", c.name, c.cfg, want.len(), want.len() - 1, rest.len(), first_bad.map(|i| format!("; entry #{i} is {}", describe(&c.module, &rest[i]))).unwrap_or_default()),
            ));
        }
        return None;
    }
    let n = rest.len();
    for (i, l) in rest.iter().enumerate() {
        let last = i + 1 == n;
        if !c.chain_allowed.contains(l) && !last {
            return Some((format!("resource:{}:chain", c.name), format!("{} with {:?}: chain entry #{i} is {}, not a call card of the active chain", c.name, c.cfg, describe(&c.module, l))));
        }
    }
    None
}

static FAMS: OnceLock<Vec<Box<dyn Family>>> = OnceLock::new();

pub fn families(_tier: Tier) -> &'static Vec<Box<dyn Family>> {
    FAMS.get_or_init(|| vec![Box::new(FErrInject::new()), Box::new(FCompileErrLoc::new())])
}

static JUDGE: LocJudge = LocJudge;

impl Check for C15 {
    fn id(&self) -> &'static str {
        "C15"
    }
    fn info(&self, tier: Tier) -> CheckInfo {
        let fams = families(tier);
        CheckInfo {
            rule: "F-errinject: 5 base programs (calls at depth 0-2 with locals and arguments; three nested modules; closures and dynamic calls of script / native values with computed arguments; Repeat / ForEach / While / IfElse; table cards, dotted names and natives) x every value-producing card position x 5 injected failing expressions (missing native, wrong-type table operand, non-function callee, failing host function, PopTable of a string): trace[0] must be the location the reference interpreter reports for the card that raised the error, trace[1..] the call cards of the active chain innermost first with their namespaces, optionally followed by one entry for the program entry. F-compile-errloc: the same positions x 4 cards the compiler must reject (unknown function in Call / Function / inside a dynamic call, empty variable name): the error location must be that card. Resource errors with constructively known location: call-depth exhaustion (4 call-stack sizes), value-stack exhaustion (every stack size for 3 expression depths: the exact literal), OutOfMemory with live data (string literal, CreateTable, Closure, Function, NativeFunction, Get row, host-function allocation stored into a reachable table x 4 limits: the producing card or the storing SetProperty; SetProperty / AppendTable growth with integer values: exactly that card), Timeout (14 budgets: a card of the spinning loop, chain = the call card); every budget 1..90 on five programs whose loop bodies are Comment cards (Repeat named / anonymous, ForEach, nested Repeat, While + IfTrue): the reported card is never a Comment and always a card of main; every budget 1..70 on a chain of calls main -> f -> g: the entries behind the first one are the call cards leading to the function the first entry lies in (also when the budget ends on a call or return instruction); compile errors raised by a loop card itself (empty loop variable name of Repeat / ForEach i, k, v at top level, in a composite, in a loop body, in a callee): exactly that card. 'states' = distinct (error location, chain) per chunk".into(),
            bound: format!("families {:?} + {} resource cases", fams.iter().map(|f| format!("{}={}", f.name(), f.len())).collect::<Vec<_>>(), res_cases().len()),
            exhaustive: true,
            assumptions: vec!["a Timeout on the implicit instructions behind the last card of a function (implicit return, exit of main) is reported one past the last card: no card owns them, such reports are not judged".into(), "errors raised inside library callbacks and host re-entry are excluded (frames created by run_function carry no call card)".into(), "injected cards that are not reached (dead branches) produce no error and are skipped".into()],
            explanation: "locations are read from ExecutionError.trace / CompilationError.loc of the real implementation and resolved against the source module".into(),
        }
    }
    fn units(&self, tier: Tier) -> u64 {
        progcheck::units_of(families(tier)) + 1
    }
    fn unit_timeout_s(&self, _tier: Tier) -> u64 {
        60
    }
    fn run_unit(&self, tier: Tier, unit: u64, out: &mut ChunkResult) {
        let n = progcheck::units_of(families(tier));
        if unit < n {
            return progcheck::run_unit(&JUDGE, families(tier), tier, unit, out);
        }
        for (i, c) in res_cases().iter().enumerate() {
            out.evaluations += 1;
            out.traces += 1;
            match run_res_case(c) {
                None => {
                    out.nontrivial += 1;
                    out.states += 1;
                    out.outcome(format!("resource {} ok", c.name));
                }
                Some((k, w)) => out.violation(Violation::new("C15", k, w, json!({"resource_case": i}))),
            }
        }
        for (i, (m, want)) in loop_name_cases().iter().enumerate() {
            out.evaluations += 1;
            out.traces += 1;
            match run_loop_name_case(m, want) {
                None => {
                    out.nontrivial += 1;
                    out.states += 1;
                    out.outcome("loop variable name ok".to_string());
                }
                Some((k, w)) => out.violation(Violation::new("C15", k, w, json!({"loop_name_case": i}))),
            }
        }
    }
    fn replay(&self, case: &J) -> Option<Violation> {
        if let Some(i) = case["resource_case"].as_u64() {
            let cases = res_cases();
            let c = cases.get(i as usize)?;
            return run_res_case(c).map(|(k, w)| Violation::new("C15", k, w, case.clone()));
        }
        if let Some(i) = case["loop_name_case"].as_u64() {
            let cases = loop_name_cases();
            let (m, want) = cases.get(i as usize)?;
            return run_loop_name_case(m, want).map(|(k, w)| Violation::new("C15", k, w, case.clone()));
        }
        progcheck::replay(&JUDGE, case)
    }
}

#[allow(dead_code)]
fn _unused(_: ir::Module) {}
