//! C11 — serialization round-trips preserve programs and values.

use crate::lower;
use crate::progcheck::{self, fnv, Judge, JR};
use crate::realrun::{self, RunCfg};
use cao_lang::collections::handle_table::{Handle, HandleTable};
use cao_lang::collections::hash_map::CaoHashMap;
use cao_lang::compiler::{compile, CompileOptions, Module as RealModule};
use cao_lang::prelude::*;
use cvx_core::engine::{Check, CheckInfo, ChunkResult, Tier, Violation};
use cvx_core::gen_basic::{CfgLite, FStmt, Family};
use cvx_core::ir::{self, Module};
use cvx_core::refsem;
use serde::{de::DeserializeOwned, Serialize};
use serde_json::{json, Value as J};
use std::collections::BTreeMap;
use std::sync::OnceLock;

pub struct C11;

// ---- formats -----------------------------------------------------------------------------------

const FORMATS: [&str; 3] = ["json", "cbor", "bincode"];

fn round<T: Serialize + DeserializeOwned>(fmt: &str, v: &T) -> Result<T, String> {
    match fmt {
        "json" => {
            let s = serde_json::to_string(v).map_err(|e| format!("json ser: {e}"))?;
            serde_json::from_str(&s).map_err(|e| format!("json de: {e}"))
        }
        "yaml" => {
            let s = serde_yaml::to_string(v).map_err(|e| format!("yaml ser: {e}"))?;
            serde_yaml::from_str(&s).map_err(|e| format!("yaml de: {e}"))
        }
        "cbor" => {
            let mut buf = Vec::new();
            ciborium::into_writer(v, &mut buf).map_err(|e| format!("cbor ser: {e}"))?;
            ciborium::from_reader(&buf[..]).map_err(|e| format!("cbor de: {e}"))
        }
        _ => {
            let buf = bincode::serde::encode_to_vec(v, bincode::config::standard()).map_err(|e| format!("bincode ser: {e}"))?;
            bincode::serde::decode_from_slice(&buf, bincode::config::standard()).map(|x| x.0).map_err(|e| format!("bincode de: {e}"))
        }
    }
}

/// field-wise image of a compiled program
fn image(p: &CaoCompiledProgram) -> String {
    let mut labels: Vec<(u32, u32)> = p.labels.0.iter().map(|(h, l)| (h.value(), l.pos)).collect();
    labels.sort();
    let mut ids: Vec<(u32, String)> = p.variables.ids.iter().map(|(h, id)| (h.value(), format!("{id:?}"))).collect();
    ids.sort();
    let mut names: Vec<(u32, String)> = p.variables.names.iter().map(|(h, n)| (h.value(), n.clone())).collect();
    names.sort();
    let mut trace: Vec<(u32, String)> = p.trace.iter().map(|(k, t)| (*k, format!("{:?}/{}/{:?}", t.namespace.iter().map(|n| n.to_string()).collect::<Vec<_>>(), t.index.function, t.index.card_index.indices.iter().copied().collect::<Vec<u32>>()))).collect();
    trace.sort();
    format!(
        "bc:{:?}|data:{:?}|labels:{labels:?}|ids:{ids:?}|names:{names:?}|ver:{}|trace:{trace:?}|lens:{},{},{},{}",
        p.bytecode,
        p.data,
        p.cao_lang_version,
        p.labels.0.len(),
        p.variables.ids.len(),
        p.variables.names.len(),
        p.trace.len()
    )
}

fn first_diff(a: &str, b: &str) -> String {
    let i = a.bytes().zip(b.bytes()).position(|(x, y)| x != y).unwrap_or(a.len().min(b.len()));
    let lo = i.saturating_sub(40);
    format!("…{} | vs | …{}", &a[lo..(i + 60).min(a.len())], &b[lo.min(b.len())..(i + 60).min(b.len())])
}

// ---- (1) source modules ---------------------------------------------------------------------------

pub struct SerdeJudge;

/// 0 = only finite real literals, 1 = an infinity (YAML carries it, JSON does not), 2 = a NaN
fn non_finite(m: &Module) -> u8 {
    let mut bad = 0u8;
    m.walk_cards(&mut |c| {
        if let ir::C::Float(f) = c {
            if f.is_nan() {
                bad = 2;
            } else if !f.is_finite() {
                bad = bad.max(1);
            }
        }
    });
    bad
}

impl Judge for SerdeJudge {
    fn property(&self) -> &'static str {
        "C11"
    }
    fn judge(&self, m: &Module, _cfg: Option<&CfgLite>) -> JR {
        let nf = non_finite(m);
        if nf == 2 {
            return JR::Skip("NaN literal (JSON cannot carry it, and NaN payload bits are not part of any format)".into());
        }
        let real = lower::module(m);
        let compiled = match std::panic::catch_unwind(|| compile(lower::module(m), CompileOptions::new())) {
            Ok(Ok(p)) => Some(p),
            Ok(Err(_)) => None,
            Err(_) => return JR::Skip("compile panic (C04)".into()),
        };
        let base = compiled.as_ref().map(image);
        for fmt in ["json", "yaml"] {
            if nf == 1 && fmt == "json" {
                // JSON has no infinity; YAML (.inf / -.inf) does and must bring it back
                continue;
            }
            let back: RealModule = match round(fmt, &real) {
                Ok(b) => b,
                Err(e) => return JR::Fail { class: format!("module-{fmt}:roundtrip-error"), what: format!("a source module does not survive {fmt}: {e}") },
            };
            // the module itself is unchanged (compare through the other format's canonical text)
            let (s1, s2) = (serde_json::to_string(&real).unwrap(), serde_json::to_string(&back).unwrap());
            if s1 != s2 {
                return JR::Fail { class: format!("module-{fmt}:source-differs"), what: format!("module read back from {fmt} differs: {}", first_diff(&s1, &s2)) };
            }
            let again = match std::panic::catch_unwind(|| compile(back, CompileOptions::new())) {
                Ok(Ok(p)) => Some(image(&p)),
                Ok(Err(_)) => None,
                Err(_) => return JR::Fail { class: format!("module-{fmt}:compile-panic"), what: "compiling the module read back panicked".into() },
            };
            if again != base {
                return JR::Fail {
                    class: format!("module-{fmt}:program-differs"),
                    what: format!("the module read back from {fmt} compiles to a different program: {}", match (&base, &again) {
                        (Some(a), Some(b)) => first_diff(a, b),
                        _ => "one compiles, the other does not".into(),
                    }),
                };
            }
        }
        // the compiled program through the three binary/text formats: same fields, same run
        if let Some(p) = &compiled {
            let natives = refsem::default_natives();
            let want = image(p);
            let run0 = realrun::run_program(m, p, &natives, &RunCfg::default());
            for (tag, src) in sources(p) {
                let src: &CaoCompiledProgram = src.as_ref().unwrap_or(p);
                for fmt in FORMATS {
                    let back: CaoCompiledProgram = match round(fmt, src) {
                        Ok(b) => b,
                        Err(e) => return JR::Fail { class: format!("program{tag}-{fmt}:roundtrip-error"), what: e },
                    };
                    let got = image(&back);
                    if got != want {
                        return JR::Fail { class: format!("program{tag}-{fmt}:fields-differ"), what: format!("compiled program{tag} read back from {fmt}: {}", first_diff(&want, &got)) };
                    }
                    let run1 = realrun::run_program(m, &back, &natives, &RunCfg::default());
                    if run1.result != run0.result || run1.globals != run0.globals || run1.log != run0.log || run1.trace != run0.trace {
                        return JR::Fail { class: format!("program{tag}-{fmt}:run-differs"), what: format!("running the program{tag} read back from {fmt}: result {} vs {}, trace {:?} vs {:?}", run1.result, run0.result, run1.trace, run0.trace) };
                    }
                }
            }
        }
        JR::Pass { outcome: if compiled.is_some() { "module+program".into() } else { "module (does not compile)".into() }, fingerprint: fnv(&base.unwrap_or_default()) }
    }
}

// ---- (2) programs with every count of globals / labels / trace entries ---------------------------

fn sized_program(globals: usize, cards: usize, lit_len: usize) -> Module {
    use ir::*;
    let mut main: Vec<C> = (0..globals).map(|i| sg(&format!("g{i}"), int(i as i64))).collect();
    if lit_len > 0 {
        // one long string literal: the data section crosses the size steps of the decoders
        main.push(sv("lit", s(&"é".repeat(lit_len / 2))));
    }
    for i in 0..cards {
        main.push(sv("x", bin(BinOp::Add, int(i as i64), int(1))));
    }
    // an error late in the program, so that the run needs the decoded trace and labels
    // (bound to locals: the program has exactly `globals` global variables, 0 included)
    main.push(sv("res", call("f", vec![int(1)])));
    main.push(sv("bad", native("no_such_native", vec![])));
    module(vec![("main", func(&[], main)), ("f", func(&["p"], vec![C::Return(b(rv("p")))]))])
}

fn check_sized(globals: usize, cards: usize) -> Option<(String, String)> {
    check_sized3(globals, cards, 0)
}

fn check_sized3(globals: usize, cards: usize, lit_len: usize) -> Option<(String, String)> {
    let m = sized_program(globals, cards, lit_len);
    let p = compile(lower::module(&m), CompileOptions::new()).ok()?;
    let natives = refsem::default_natives();
    let want = image(&p);
    let run0 = realrun::run_program(&m, &p, &natives, &RunCfg::default());
    for (tag, src) in sources(&p) {
        if let Some(v) = check_sized_src(&m, src.as_ref().unwrap_or(&p), tag, &want, &run0, globals, cards) {
            return Some(v);
        }
    }
    None
}

/// The program that is written out is not only the one the compiler just returned: a clone of it
/// and one that was itself read back (bincode) are programs too, and their containers were built
/// along other paths (Clone, the decoders) than the compiler's inserts.
fn sources(p: &CaoCompiledProgram) -> Vec<(&'static str, Option<CaoCompiledProgram>)> {
    // None: the program the compiler returned, itself
    let mut v = vec![("", None), ("(a clone)", Some(p.clone())), ("(clone of a clone)", Some(p.clone().clone()))];
    if let Ok(b) = round::<CaoCompiledProgram>("bincode", p) {
        v.push(("(read back from bincode before)", Some(b)));
    }
    v
}

fn check_sized_src(m: &Module, p: &CaoCompiledProgram, tag: &str, want: &str, run0: &realrun::RealOutcome, globals: usize, cards: usize) -> Option<(String, String)> {
    let natives = refsem::default_natives();
    for fmt in FORMATS {
        let r = std::panic::catch_unwind(|| round::<CaoCompiledProgram>(fmt, p));
        let back = match r {
            Ok(Ok(b)) => b,
            Ok(Err(e)) => return Some((format!("sized{tag}-{fmt}:roundtrip-error"), format!("{globals} globals, {cards} cards: {e}"))),
            Err(pn) => return Some((format!("sized{tag}-{fmt}:panic"), format!("{globals} globals, {cards} cards: decoding panicked: {}", cvx_core::engine::panic_message(&pn)))),
        };
        let got = image(&back);
        if got != want {
            return Some((format!("sized{tag}-{fmt}:fields-differ"), format!("{globals} globals, {cards} cards ({} labels, {} trace entries): {}", p.labels.0.len(), p.trace.len(), first_diff(want, &got))));
        }
        let r = std::panic::catch_unwind(std::panic::AssertUnwindSafe(|| realrun::run_program(m, &back, &natives, &RunCfg::default())));
        match r {
            Ok(run1) => {
                if run1.result != run0.result || run1.globals != run0.globals || run1.trace != run0.trace {
                    return Some((format!("sized{tag}-{fmt}:run-differs"), format!("{globals} globals, {cards} cards: result {} vs {}; trace {:?} vs {:?}", run1.result, run0.result, run1.trace.first(), run0.trace.first())));
                }
            }
            Err(pn) => return Some((format!("sized{tag}-{fmt}:run-panic"), format!("{globals} globals, {cards} cards: {}", cvx_core::engine::panic_message(&pn)))),
        }
    }
    None
}

// ---- (3) containers -------------------------------------------------------------------------------

fn check_handle_table(n: usize, fmt: &str) -> Option<(String, String)> {
    let mut t: HandleTable<u32> = HandleTable::default();
    let mut model: BTreeMap<u32, u32> = BTreeMap::new();
    for i in 0..n {
        let h = Handle::from_u32(i as u32 + 1);
        t.insert(h, i as u32 * 3).unwrap();
        model.insert(h.value(), i as u32 * 3);
    }
    let mut back: HandleTable<u32> = match std::panic::catch_unwind(|| round(fmt, &t)) {
        Ok(Ok(b)) => b,
        Ok(Err(e)) => return Some((format!("handle-table-{fmt}:roundtrip-error"), format!("{n} entries: {e}"))),
        Err(p) => return Some((format!("handle-table-{fmt}:panic"), format!("{n} entries: {}", cvx_core::engine::panic_message(&p)))),
    };
    let probe = |b: &HandleTable<u32>, model: &BTreeMap<u32, u32>, when: &str| -> Option<(String, String)> {
        if b.len() != model.len() {
            return Some((format!("handle-table-{fmt}:len"), format!("{n} entries, {when}: len {} expected {}", b.len(), model.len())));
        }
        for i in 0..n + 3 {
            let h = Handle::from_u32(i as u32 + 1);
            let r = std::panic::catch_unwind(std::panic::AssertUnwindSafe(|| b.get(h).copied()));
            match r {
                Ok(g) if g == model.get(&h.value()).copied() => {}
                Ok(g) => return Some((format!("handle-table-{fmt}:get"), format!("{n} entries, {when}: get(handle of {}) = {g:?}, expected {:?}", i + 1, model.get(&h.value())))),
                Err(p) => return Some((format!("handle-table-{fmt}:get-panic"), format!("{n} entries, {when}: get panicked: {}", cvx_core::engine::panic_message(&p)))),
            }
        }
        let it: BTreeMap<u32, u32> = b.iter().map(|(k, v)| (k.value(), *v)).collect();
        if &it != model {
            return Some((format!("handle-table-{fmt}:iter"), format!("{n} entries, {when}: iteration differs")));
        }
        None
    };
    if let Some(v) = probe(&back, &model, "decoded") {
        return Some(v);
    }
    // the decoded object is usable: follow-up histories of depth 2
    let ops: Vec<(&str, u32)> = vec![("insert", 100_000), ("insert", 1), ("remove", 1), ("remove", n as u32), ("entry", 100_001), ("entry", 2)];
    for a in ops.iter() {
        for b_ in ops.iter() {
            let mut t2 = match std::panic::catch_unwind(std::panic::AssertUnwindSafe(|| back.clone())) {
                Ok(t) => t,
                Err(p) => return Some((format!("handle-table-{fmt}:clone-panic"), format!("{n} entries: {}", cvx_core::engine::panic_message(&p)))),
            };
            let mut m2 = model.clone();
            for (op, k) in [a, b_] {
                let h = Handle::from_u32(*k);
                let r = std::panic::catch_unwind(std::panic::AssertUnwindSafe(|| match *op {
                    "insert" => {
                        t2.insert(h, 7).unwrap();
                    }
                    "remove" => {
                        t2.remove(h);
                    }
                    _ => {
                        t2.entry(h).or_insert_with(|| 9);
                    }
                }));
                if let Err(p) = r {
                    return Some((format!("handle-table-{fmt}:followup-panic"), format!("{n} entries, {op}: {}", cvx_core::engine::panic_message(&p))));
                }
                match *op {
                    "insert" => {
                        m2.insert(h.value(), 7);
                    }
                    "remove" => {
                        m2.remove(&h.value());
                    }
                    _ => {
                        m2.entry(h.value()).or_insert(9);
                    }
                }
            }
            if let Some(v) = probe(&t2, &m2, &format!("after {} {} / {} {}", a.0, a.1, b_.0, b_.1)) {
                return Some(v);
            }
        }
    }
    let _ = &mut back;
    None
}

fn check_hash_map(n: usize, fmt: &str, string_keys: bool) -> Option<(String, String)> {
    macro_rules! body {
        ($kt:ty, $mk:expr) => {{
            let mut t: CaoHashMap<$kt, u32> = CaoHashMap::default();
            let mut model: BTreeMap<$kt, u32> = BTreeMap::new();
            for i in 0..n {
                t.insert($mk(i), i as u32 * 5).unwrap();
                model.insert($mk(i), i as u32 * 5);
            }
            let back: CaoHashMap<$kt, u32> = match std::panic::catch_unwind(|| round(fmt, &t)) {
                Ok(Ok(b)) => b,
                Ok(Err(e)) => return Some((format!("hash-map-{fmt}:roundtrip-error"), format!("{n} entries: {e}"))),
                Err(p) => return Some((format!("hash-map-{fmt}:panic"), format!("{n} entries: {}", cvx_core::engine::panic_message(&p)))),
            };
            let probe = |b: &CaoHashMap<$kt, u32>, model: &BTreeMap<$kt, u32>, when: &str| -> Option<(String, String)> {
                if b.len() != model.len() {
                    return Some((format!("hash-map-{fmt}:len"), format!("{n} entries, {when}: len {} expected {}", b.len(), model.len())));
                }
                for i in 0..n + 3 {
                    let k = $mk(i);
                    if b.get(&k).copied() != model.get(&k).copied() {
                        return Some((format!("hash-map-{fmt}:get"), format!("{n} entries, {when}: get(key {i}) = {:?}, expected {:?}", b.get(&k), model.get(&k))));
                    }
                }
                let it: BTreeMap<$kt, u32> = b.iter().map(|(k, v)| (k.clone(), *v)).collect();
                if &it != model {
                    return Some((format!("hash-map-{fmt}:iter"), format!("{n} entries, {when}: iteration differs")));
                }
                None
            };
            if let Some(v) = probe(&back, &model, "decoded") {
                return Some(v);
            }
            let ops: Vec<(&str, usize)> = vec![("insert", n + 100), ("insert", 0), ("remove", 0), ("remove", n.saturating_sub(1)), ("entry", n + 101), ("entry", 1)];
            for a in ops.iter() {
                for b_ in ops.iter() {
                    let mut t2 = match std::panic::catch_unwind(std::panic::AssertUnwindSafe(|| round::<CaoHashMap<$kt, u32>>(fmt, &t).unwrap())) {
                        Ok(t) => t,
                        Err(p) => return Some((format!("hash-map-{fmt}:panic"), cvx_core::engine::panic_message(&p))),
                    };
                    let mut m2 = model.clone();
                    for (op, k) in [a, b_] {
                        let key = $mk(*k);
                        let r = std::panic::catch_unwind(std::panic::AssertUnwindSafe(|| match *op {
                            "insert" => {
                                t2.insert(key.clone(), 7).unwrap();
                            }
                            "remove" => {
                                t2.remove(&key);
                            }
                            _ => {
                                t2.entry(key.clone()).unwrap().or_insert_with(|| 9);
                            }
                        }));
                        if let Err(p) = r {
                            return Some((format!("hash-map-{fmt}:followup-panic"), format!("{n} entries, {op}: {}", cvx_core::engine::panic_message(&p))));
                        }
                        match *op {
                            "insert" => {
                                m2.insert(key, 7);
                            }
                            "remove" => {
                                m2.remove(&key);
                            }
                            _ => {
                                m2.entry(key).or_insert(9);
                            }
                        }
                    }
                    if let Some(v) = probe(&t2, &m2, &format!("after {} {} / {} {}", a.0, a.1, b_.0, b_.1)) {
                        return Some(v);
                    }
                }
            }
            None
        }};
    }
    if string_keys {
        body!(String, |i: usize| format!("key-{i}"))
    } else {
        body!(u32, |i: usize| i as u32 * 7 + 1)
    }
}

// ---- (4) owned values -----------------------------------------------------------------------------

fn owned_universe() -> Vec<OwnedValue> {
    let leaves = vec![
        OwnedValue::Nil,
        OwnedValue::Integer(0),
        OwnedValue::Integer(-7),
        OwnedValue::Integer(i64::MAX),
        OwnedValue::Real(0.5),
        OwnedValue::Real(-2.0),
        // not a short decimal: needs the exact float parser of the JSON crate (its float_roundtrip
        // feature, which the harness enables; the default parser is off by one ulp here)
        OwnedValue::Real(1.0715660391465826e-75),
        OwnedValue::String(String::new()),
        OwnedValue::String("text é".into()),
    ];
    let mut out = leaves.clone();
    let entry = |k: &OwnedValue, v: &OwnedValue| OwnedEntry { key: k.clone(), value: v.clone() };
    // depth 1: tables of up to 3 entries with distinct keys, in both orders
    let keys = [OwnedValue::Integer(1), OwnedValue::String("k".into()), OwnedValue::Real(1.5), OwnedValue::Nil];
    let mut depth1: Vec<OwnedValue> = vec![OwnedValue::Table(vec![])];
    for (i, k1) in keys.iter().enumerate() {
        for v1 in leaves.iter() {
            depth1.push(OwnedValue::Table(vec![entry(k1, v1)]));
        }
        for (j, k2) in keys.iter().enumerate() {
            if i != j {
                depth1.push(OwnedValue::Table(vec![entry(k1, &leaves[1]), entry(k2, leaves.last().unwrap())]));
            }
        }
    }
    out.extend(depth1.iter().cloned());
    // depth 2: tables holding tables as values (and as keys)
    for t in depth1.iter().take(12) {
        out.push(OwnedValue::Table(vec![entry(&OwnedValue::Integer(0), t), entry(&OwnedValue::String("second".into()), &leaves[2])]));
        out.push(OwnedValue::Table(vec![entry(t, &leaves[1])]));
    }
    out
}

fn owned_image(v: &OwnedValue) -> String {
    match v {
        OwnedValue::Nil => "nil".into(),
        OwnedValue::String(s) => format!("{s:?}"),
        OwnedValue::Integer(i) => format!("{i}"),
        OwnedValue::Real(r) => format!("{r:?}r"),
        OwnedValue::Table(t) => format!("{{{}}}", t.iter().map(|e| format!("{}:{}", owned_image(&e.key), owned_image(&e.value))).collect::<Vec<_>>().join(",")),
    }
}

fn check_owned(v: &OwnedValue) -> Option<(String, String)> {
    let want = owned_image(v);
    // into a VM and back
    let mut vm: Vm<()> = Vm::new(()).unwrap();
    let val = match vm.insert_value(v) {
        Ok(x) => x,
        Err(e) => return Some(("owned:insert-error".into(), format!("{want}: {e}"))),
    };
    let owned = match OwnedValue::try_from(val) {
        Ok(o) => o,
        Err(_) => return Some(("owned:to-owned-error".into(), want)),
    };
    if owned_image(&owned) != want {
        return Some(("owned:vm-roundtrip".into(), format!("{want} became {} through insert_value + OwnedValue::try_from", owned_image(&owned))));
    }
    for fmt in FORMATS {
        let back: OwnedValue = match round(fmt, &owned) {
            Ok(b) => b,
            Err(e) => return Some((format!("owned-{fmt}:roundtrip-error"), format!("{want}: {e}"))),
        };
        let mut vm2: Vm<()> = Vm::new(()).unwrap();
        let val2 = match vm2.insert_value(&back) {
            Ok(x) => x,
            Err(e) => return Some((format!("owned-{fmt}:insert-error"), format!("{want}: {e}"))),
        };
        let again = match OwnedValue::try_from(val2) {
            Ok(o) => o,
            Err(_) => return Some((format!("owned-{fmt}:to-owned-error"), want)),
        };
        if owned_image(&again) != want {
            return Some((format!("owned-{fmt}:value-differs"), format!("{want} became {} through {fmt} and a second VM", owned_image(&again))));
        }
    }
    None
}

/// the same runtime object referenced more than once (a DAG, no cycle): the owned form is the tree
/// expansion, every reference carrying the full content
fn check_shared(v: &OwnedValue) -> Option<(String, String)> {
    let img = owned_image(v);
    for shape in 0..4u32 {
        let mut vm: Vm<()> = Vm::new(()).unwrap();
        let val = match vm.insert_value(v) {
            Ok(x) => x,
            Err(e) => return Some(("shared:insert-error".into(), format!("{img}: {e}"))),
        };
        let mut root = vm.init_table().unwrap();
        let mut mid = vm.init_table().unwrap();
        let want = {
            let rt = root.as_table_mut().unwrap();
            match shape {
                0 => {
                    rt.insert(Value::Integer(0), val).unwrap();
                    rt.insert(Value::Integer(1), val).unwrap();
                    rt.insert(Value::Integer(2), val).unwrap();
                    format!("{{0:{img},1:{img},2:{img}}}")
                }
                1 => {
                    // as key and as value of one entry (nil keys are not hashable: skipped by the caller)
                    rt.insert(val, val).unwrap();
                    format!("{{{img}:{img}}}")
                }
                2 => {
                    // at two depths
                    mid.as_table_mut().unwrap().insert(Value::Integer(0), val).unwrap();
                    rt.insert(Value::Integer(0), Value::Object(std::ptr::NonNull::from(&*mid))).unwrap();
                    rt.insert(Value::Integer(1), val).unwrap();
                    format!("{{0:{{0:{img}}},1:{img}}}")
                }
                _ => {
                    // the middle table itself shared, holding the value twice
                    mid.as_table_mut().unwrap().insert(Value::Integer(0), val).unwrap();
                    mid.as_table_mut().unwrap().insert(Value::Integer(1), val).unwrap();
                    let m = Value::Object(std::ptr::NonNull::from(&*mid));
                    rt.insert(Value::Integer(0), m).unwrap();
                    rt.insert(Value::Integer(1), m).unwrap();
                    format!("{{0:{{0:{img},1:{img}}},1:{{0:{img},1:{img}}}}}")
                }
            }
        };
        let rootv = Value::Object(std::ptr::NonNull::from(&*root));
        let owned = match OwnedValue::try_from(rootv) {
            Ok(o) => o,
            Err(_) => return Some(("shared:to-owned-error".into(), want)),
        };
        if owned_image(&owned) != want {
            return Some(("shared:to-owned".into(), format!("shape {shape}: the owned form of {want} (one object referenced several times) is {}", owned_image(&owned))));
        }
        for fmt in FORMATS {
            let back: OwnedValue = match round(fmt, &owned) {
                Ok(b) => b,
                Err(e) => return Some((format!("shared-{fmt}:roundtrip-error"), format!("{want}: {e}"))),
            };
            let mut vm2: Vm<()> = Vm::new(()).unwrap();
            let again = vm2.insert_value(&back).ok().and_then(|x| OwnedValue::try_from(x).ok());
            if again.as_ref().map(owned_image) != Some(want.clone()) {
                return Some((format!("shared-{fmt}:value-differs"), format!("{want} became {:?} through {fmt} and a second VM", again.as_ref().map(owned_image))));
            }
        }
    }
    None
}

// ---- check ----------------------------------------------------------------------------------------

static QUICK: OnceLock<Vec<Box<dyn Family>>> = OnceLock::new();
static THOROUGH: OnceLock<Vec<Box<dyn Family>>> = OnceLock::new();

fn families(tier: Tier) -> &'static Vec<Box<dyn Family>> {
    use cvx_core::gen_c04::FKinds;
    use cvx_core::gen_closure::FClosureNest;
    use cvx_core::gen_errloc::FErrInject;
    use cvx_core::gen_resolve::{FDigitNames, FResolve};
    match tier {
        Tier::Quick => QUICK.get_or_init(|| vec![Box::new(cvx_core::gen_more::FInfLiterals), Box::new(FDigitNames), Box::new(FKinds), Box::new(FStmt::new(1)), Box::new(FClosureNest), Box::new(FErrInject::new())]),
        Tier::Thorough => THOROUGH.get_or_init(|| vec![Box::new(cvx_core::gen_more::FInfLiterals), Box::new(FDigitNames), Box::new(FKinds), Box::new(FStmt::new(1)), Box::new(FClosureNest), Box::new(FErrInject::new()), Box::new(FStmt::new(2)), Box::new(FResolve)]),
    }
}

static JUDGE: SerdeJudge = SerdeJudge;

fn counts(tier: Tier) -> usize {
    tier.pick(64, 400)
}

impl Check for C11 {
    fn id(&self) -> &'static str {
        "C11"
    }
    fn info(&self, tier: Tier) -> CheckInfo {
        let fams = families(tier);
        CheckInfo {
            rule: format!("(1) every module of the families {:?}: JSON and YAML -> back -> identical source, compile -> byte-identical program image (bytecode, data, labels, variable ids/names, version, trace); the compiled program through JSON / CBOR / bincode -> field-wise equal image and the same run (result, globals, host log, error trace). (2) programs with every count of globals 0..{n} and of extra cards 0..{n} (labels and trace entries cross every capacity step of the decoders) through the 3 formats: image + run incl. a late error whose trace needs the decoded tables; plus large images (300 / 600 globals, 500 / 1500 cards, one string literal of 100, 4090, 4096, 4100, 5000, 70000 bytes: bytecode and data sections beyond 4 KiB and 64 KiB). (3) HandleTable<u32>, CaoHashMap<u32,u32> and CaoHashMap<String,u32> with every entry count 0..{n} x 3 formats: len, get for present and absent keys, iteration, and every follow-up history of depth 2 over insert / remove / entry on the decoded object against a BTreeMap. (4) {} owned values of depth <= 2 over nil, ints, finite reals, strings, tables (also as keys): insert_value -> OwnedValue -> 3 formats -> insert_value into a second VM -> deep-equal with order; the same for roots in which one runtime object is referenced several times (three values of one table, key and value of one entry, at two depths, through a shared middle table): the owned form is the tree expansion. 'states' = distinct program images / cases", fams.iter().map(|f| format!("{}={}", f.name(), f.len())).collect::<Vec<_>>(), owned_universe().len(), n = counts(tier)),
            bound: format!("counts 0..{}", counts(tier)),
            exhaustive: true,
            assumptions: vec!["NaN literals are excluded for source round trips; infinities are excluded for JSON only (format limitation) and must survive YAML".into()],
            explanation: "all encoders / decoders are the crate's own serde implementations driven through serde_json, serde_yaml, ciborium and bincode".into(),
        }
    }
    fn units(&self, tier: Tier) -> u64 {
        progcheck::units_of(families(tier)) + 4
    }
    fn unit_timeout_s(&self, tier: Tier) -> u64 {
        tier.pick(60, 900)
    }
    fn run_unit(&self, tier: Tier, unit: u64, out: &mut ChunkResult) {
        let n = progcheck::units_of(families(tier));
        if unit < n {
            return progcheck::run_unit(&JUDGE, families(tier), tier, unit, out);
        }
        let max = counts(tier);
        let mut report = |out: &mut ChunkResult, r: Option<(String, String)>, case: J| {
            out.evaluations += 1;
            out.traces += 1;
            out.transitions += 1;
            match r {
                None => {
                    out.states += 1;
                    out.nontrivial += 1;
                }
                Some((k, w)) => out.violation(Violation::new("C11", k, w, case)),
            }
        };
        match unit - n {
            0 => {
                for g in 0..=max {
                    cvx_core::engine::trace_case(|| json!({"sized": [g, 0]}));
                    let r = check_sized(g, 0);
                    report(out, r, json!({"sized": [g, 0]}));
                }
                for c in 0..=max {
                    cvx_core::engine::trace_case(|| json!({"sized": [3, c]}));
                    let r = check_sized(3, c);
                    report(out, r, json!({"sized": [3, c]}));
                }
                // a few large images in both tiers: bytecode and data well beyond 4 KiB / 64 KiB
                for (g, c, l) in [(300usize, 0usize, 0usize), (600, 0, 0), (3, 500, 0), (3, 1500, 0), (0, 0, 100), (0, 0, 4090), (0, 0, 4096), (0, 0, 4100), (2, 2, 5000), (2, 2, 70_000), (300, 300, 5000)] {
                    cvx_core::engine::trace_case(|| json!({"sized": [g, c, l]}));
                    let r = check_sized3(g, c, l);
                    report(out, r, json!({"sized": [g, c, l]}));
                }
                out.outcome("sized programs");
            }
            1 => {
                for c in 0..=max {
                    for fmt in FORMATS {
                        cvx_core::engine::trace_case(|| json!({"handle_table": c, "fmt": fmt}));
                        let r = check_handle_table(c, fmt);
                        report(out, r, json!({"handle_table": c, "fmt": fmt}));
                    }
                }
                out.outcome("handle tables");
            }
            2 => {
                for c in 0..=max {
                    for fmt in FORMATS {
                        for sk in [false, true] {
                            cvx_core::engine::trace_case(|| json!({"hash_map": c, "fmt": fmt, "string_keys": sk}));
                            let r = check_hash_map(c, fmt, sk);
                            report(out, r, json!({"hash_map": c, "fmt": fmt, "string_keys": sk}));
                        }
                    }
                }
                out.outcome("hash maps");
            }
            _ => {
                for (i, v) in owned_universe().iter().enumerate() {
                    let r = check_owned(v);
                    report(out, r, json!({"owned": i}));
                    if !matches!(v, OwnedValue::Nil) {
                        let r = check_shared(v);
                        report(out, r, json!({"shared": i}));
                    }
                }
                out.outcome("owned values");
            }
        }
    }
    fn replay(&self, case: &J) -> Option<Violation> {
        let mk = |r: Option<(String, String)>| r.map(|(k, w)| Violation::new("C11", k, w, case.clone()));
        if let Some(a) = case["sized"].as_array() {
            return mk(check_sized3(a[0].as_u64()? as usize, a[1].as_u64()? as usize, a.get(2).and_then(|x| x.as_u64()).unwrap_or(0) as usize));
        }
        if let Some(c) = case["handle_table"].as_u64() {
            return mk(check_handle_table(c as usize, case["fmt"].as_str()?));
        }
        if let Some(c) = case["hash_map"].as_u64() {
            return mk(check_hash_map(c as usize, case["fmt"].as_str()?, case["string_keys"].as_bool()?));
        }
        if let Some(i) = case["owned"].as_u64() {
            return mk(check_owned(owned_universe().get(i as usize)?));
        }
        if let Some(i) = case["shared"].as_u64() {
            return mk(check_shared(owned_universe().get(i as usize)?));
        }
        progcheck::replay(&JUDGE, case)
    }
}
