//! C19 — value equality, hashing and ordering are mutually coherent.
//!
//! Exhaustive relation check over a finite universe of values built through the host API of one
//! real VM: all pairs and all triples. The same pairs are evaluated by the reference semantics
//! (independent oracle for the coercing order) and, for the script seam, through compiled
//! Equals / NotEquals / Less / LessOrEq cards.

use crate::realrun::{self, CompileOutcome, RunCfg};
use cao_lang::collections::hash_map::CaoHashMap;
use cao_lang::prelude::*;
use cvx_core::engine::{Check, CheckInfo, ChunkResult, Tier, Violation};
use cvx_core::ir::{self, bin, BinOp, C};
use cvx_core::refsem::{self, Ob, Ord3, V};
use serde_json::{json, Value as J};
use std::rc::Rc;

pub struct C19;

#[derive(Clone)]
struct Elem {
    name: String,
    /// in the domain the laws are stated for (nil, ints, non-NaN reals, strings, tables of those)
    lawful: bool,
    nan: bool,
    signed_zero: bool,
    /// exactly representable in both number kinds
    exact: bool,
    host: Value,
    model: V,
    /// statements that bind the value to variable `var` in a script (None: not constructible)
    script: Option<Vec<C>>,
}

fn tbl(vm: &mut Vm<()>, entries: &[(Value, Value)]) -> Value {
    let mut t = vm.init_table().unwrap();
    for (k, v) in entries {
        t.as_table_mut().unwrap().insert(*k, *v).unwrap();
    }
    Value::Object(t.into_inner())
}

fn sv_(vm: &mut Vm<()>, s: &str) -> Value {
    Value::Object(vm.init_string(s).unwrap().into_inner())
}

fn mtbl(entries: &[(V, V)]) -> V {
    let t = refsem::new_table();
    if let V::Table(tt) = &t {
        for (k, v) in entries {
            tt.borrow_mut().push((k.clone(), v.clone()));
        }
    }
    t
}

/// exact numeric comparison of an integer with a non-NaN real
fn exact_cmp(i: i64, r: f64) -> Option<std::cmp::Ordering> {
    use std::cmp::Ordering::*;
    if r.is_nan() {
        return None;
    }
    let two63 = 9_223_372_036_854_775_808.0f64;
    if r >= two63 {
        return Some(Less);
    }
    if r < -two63 {
        return Some(Greater);
    }
    let t = r.trunc();
    let ti = t as i64; // exact: |t| < 2^63 (or t = -2^63)
    Some(match i.cmp(&ti) {
        Equal => {
            let frac = r - t;
            if frac > 0.0 {
                Less
            } else if frac < 0.0 {
                Greater
            } else {
                Equal
            }
        }
        o => o,
    })
}

fn universe(vm: &mut Vm<()>) -> Vec<Elem> {
    let mut u: Vec<Elem> = Vec::new();
    let mut push = |name: &str, lawful: bool, host: Value, model: V, script: Option<Vec<C>>| {
        let nan = matches!(host, Value::Real(r) if r.is_nan());
        let signed_zero = matches!(host, Value::Real(r) if r == 0.0);
        let exact = match host {
            Value::Integer(i) => i.unsigned_abs() <= (1u64 << 53),
            Value::Real(r) => r.is_finite() && r.abs() <= (1u64 << 53) as f64,
            _ => true,
        };
        u.push(Elem { name: name.to_string(), lawful: lawful && !nan, nan, signed_zero, exact, host, model, script });
    };
    let var = |c: C| Some(vec![ir::sv("VAR", c)]);
    push("nil", true, Value::Nil, V::Nil, var(C::Nil));
    for i in [0i64, 1, -1, 2, 3, 1 << 53, (1 << 53) + 1, i64::MIN, i64::MAX] {
        push(&format!("int {i}"), true, Value::Integer(i), V::Int(i), var(C::Int(i)));
    }
    for r in [0.0f64, -0.0, 1.0, -1.0, 0.5, 2.0, 3.0, (1u64 << 53) as f64, 9_223_372_036_854_775_808.0, -9_223_372_036_854_775_808.0, 1e19, -1e19, 1e300, f64::INFINITY, f64::NEG_INFINITY, f64::NAN] {
        push(&format!("real {r:?}"), true, Value::Real(r), V::Real(r), var(C::Float(r)));
    }
    for s in ["", "a", "b", "ab", "abc"] {
        for copy in 0..2 {
            let h = sv_(vm, s);
            push(&format!("str {s:?}#{copy}"), true, h, refsem::v_str(s), var(C::Str(s.to_string())));
        }
    }
    // tables
    let e = tbl(vm, &[]);
    push("{}", true, e, mtbl(&[]), var(C::CreateTable));
    for copy in 0..2 {
        let t = tbl(vm, &[(Value::Integer(0), Value::Integer(1))]);
        push(&format!("{{0:1}}#{copy}"), true, t, mtbl(&[(V::Int(0), V::Int(1))]), var(C::Array(vec![C::Int(1)])));
    }
    let t = tbl(vm, &[(Value::Integer(0), Value::Integer(1)), (Value::Integer(1), Value::Integer(2))]);
    push("{0:1,1:2}", true, t, mtbl(&[(V::Int(0), V::Int(1)), (V::Int(1), V::Int(2))]), var(C::Array(vec![C::Int(1), C::Int(2)])));
    let t = tbl(vm, &[(Value::Integer(1), Value::Integer(2)), (Value::Integer(0), Value::Integer(1))]);
    push(
        "{1:2,0:1}",
        true,
        t,
        mtbl(&[(V::Int(1), V::Int(2)), (V::Int(0), V::Int(1))]),
        Some(vec![ir::sv("VAR", C::CreateTable), C::SetProperty(ir::b(C::Int(2)), ir::b(ir::rv("VAR")), ir::b(C::Int(1))), C::SetProperty(ir::b(C::Int(1)), ir::b(ir::rv("VAR")), ir::b(C::Int(0)))]),
    );
    let inner = tbl(vm, &[]);
    let ka = sv_(vm, "a");
    let t = tbl(vm, &[(ka, inner)]);
    push(
        "{\"a\":{}}",
        true,
        t,
        mtbl(&[(refsem::v_str("a"), mtbl(&[]))]),
        Some(vec![ir::sv("VAR", C::CreateTable), C::SetProperty(ir::b(C::CreateTable), ir::b(ir::rv("VAR")), ir::b(ir::s("a")))]),
    );
    let va = sv_(vm, "a");
    let t = tbl(vm, &[(Value::Integer(0), va)]);
    push("{0:\"a\"}", true, t, mtbl(&[(V::Int(0), refsem::v_str("a"))]), var(C::Array(vec![ir::s("a")])));
    // a grown-then-shrunk table equal to {0:1}: different bucket layout, same contents
    {
        let mut g = vm.init_table().unwrap();
        let tt = g.as_table_mut().unwrap();
        tt.insert(Value::Integer(0), Value::Integer(1)).unwrap();
        for i in 10..30 {
            tt.insert(Value::Integer(i), Value::Integer(i)).unwrap();
        }
        for i in 10..30 {
            tt.remove(Value::Integer(i)).unwrap();
        }
        push("{0:1}grown", true, Value::Object(g.into_inner()), mtbl(&[(V::Int(0), V::Int(1))]), None);
    }
    {
        let mut g = vm.init_table().unwrap();
        let tt = g.as_table_mut().unwrap();
        for i in 10..30 {
            tt.insert(Value::Integer(i), Value::Integer(i)).unwrap();
        }
        tt.insert(Value::Integer(0), Value::Integer(1)).unwrap();
        tt.insert(Value::Integer(1), Value::Integer(2)).unwrap();
        for i in 10..30 {
            tt.remove(Value::Integer(i)).unwrap();
        }
        push("{0:1,1:2}grown", true, Value::Object(g.into_inner()), mtbl(&[(V::Int(0), V::Int(1)), (V::Int(1), V::Int(2))]), None);
    }
    // function-like values (outside the lawful domain, but every operation on them must return)
    let f = Value::Object(vm.init_function(Handle::from_u64(1), 0).unwrap().into_inner());
    push("function", false, f, V::Func(Rc::new("f".into()), 0), None);
    let n = Value::Object(vm.init_native_function(Handle::from("log")).unwrap().into_inner());
    push("native", false, n, V::Native(Rc::new("log".into())), None);
    let c = Value::Object(vm.init_closure(Handle::from_u64(2), 0).unwrap().into_inner());
    push("closure", false, c, V::Func(Rc::new("c".into()), 0), None);
    let tf = tbl(vm, &[(Value::Integer(0), f)]);
    push("{0:function}", false, tf, mtbl(&[(V::Int(0), V::Func(Rc::new("f".into()), 0))]), None);
    u
}

fn hash_of(v: &Value) -> u64 {
    CaoHashMap::<Value, ()>::verif_hash(v)
}

fn lt(a: &Value, b: &Value) -> bool {
    a < b
}
fn le(a: &Value, b: &Value) -> bool {
    a <= b
}

fn viol(key: &str, what: String, names: &[&str]) -> Violation {
    Violation::new("C19", key, what, json!({"law": key, "elements": names}))
}

fn kind(e: &Elem) -> &'static str {
    match e.host {
        Value::Nil => "nil",
        Value::Integer(_) => "int",
        Value::Real(_) => "real",
        Value::Object(_) => {
            if e.name.starts_with("str") {
                "str"
            } else if e.name.starts_with('{') {
                "table"
            } else {
                "fn"
            }
        }
    }
}

/// all laws on one pair; `only` restricts to one law key (replay)
fn check_pair(a: &Elem, b: &Elem, vm: &mut Vm<()>, out: &mut Vec<Violation>) {
    let (x, y) = (&a.host, &b.host);
    let names = [a.name.as_str(), b.name.as_str()];
    let kk = format!("{}/{}", kind(a), kind(b));
    let eq = x == y;
    // agreement with the reference semantics (independent oracle)
    if !a.nan && !b.nan {
        if let Some(m) = refsem::equals(&a.model, &b.model, 0) {
            if m != eq && (a.lawful && b.lawful) {
                out.push(viol(&format!("eq-vs-reference:{kk}"), format!("{} == {} is {eq}, the language's equality says {m}", a.name, b.name), &names));
            }
        }
        if let Some(o) = refsem::compare(&a.model, &b.model) {
            let (ml, mle) = (o == Ord3::Less, o == Ord3::Less || o == Ord3::Equal);
            // an integer and a real that are not both exactly representable in the other kind:
            // the statement does not say how a tie at the f64 rounding boundary resolves, so both
            // the exact numeric order and the order after converting the integer to a real are
            // accepted - anything else contradicts the numeric value under either reading
            let mixed = matches!((&a.host, &b.host), (Value::Integer(_), Value::Real(_)) | (Value::Real(_), Value::Integer(_)));
            let precise = !mixed || (a.exact && b.exact);
            if (lt(x, y) != ml || le(x, y) != mle) && precise && a.lawful && b.lawful {
                out.push(viol(&format!("order-vs-reference:{kk}"), format!("{} < {} is {}, <= is {}; the language's order says {ml} / {mle}", a.name, b.name, lt(x, y), le(x, y)), &names));
            }
            if !precise && a.lawful && b.lawful {
                let (ex, cast) = match (&a.host, &b.host) {
                    (Value::Integer(i), Value::Real(r)) => (exact_cmp(*i, *r), (*i as f64).partial_cmp(r)),
                    (Value::Real(r), Value::Integer(i)) => (exact_cmp(*i, *r).map(|o| o.reverse()), r.partial_cmp(&(*i as f64))),
                    _ => (None, None),
                };
                let got = (lt(x, y), le(x, y));
                let shape = |o: Option<std::cmp::Ordering>| o.map(|o| (o == std::cmp::Ordering::Less, o != std::cmp::Ordering::Greater));
                if Some(got) != shape(ex) && Some(got) != shape(cast) {
                    out.push(viol(&format!("order-vs-numeric:{kk}"), format!("{} < {} is {}, <= is {}; by exact numeric value the order is {ex:?}, after converting the integer to a real {cast:?}", a.name, b.name, got.0, got.1), &names));
                }
            }
        }
    }
    if !(a.lawful && b.lawful) {
        // outside the lawful domain everything only has to return
        let _ = (lt(x, y), le(x, y), hash_of(x), x.as_bool());
        return;
    }
    if eq != (y == x) {
        out.push(viol(&format!("eq-symmetry:{kk}"), format!("{} == {} is {eq} but the converse is {}", a.name, b.name, y == x), &names));
    }
    if eq && !(a.signed_zero && b.signed_zero) {
        if hash_of(x) != hash_of(y) {
            out.push(viol(&format!("eq-hash:{kk}"), format!("{} == {} but their hashes differ ({} vs {})", a.name, b.name, hash_of(x), hash_of(y)), &names));
        }
        // observable form: a table keyed by a is hit by b
        let mut t = vm.init_table().unwrap();
        let tt = t.as_table_mut().unwrap();
        tt.insert(*x, Value::Integer(77)).unwrap();
        if tt.get(y).copied() != Some(Value::Integer(77)) {
            out.push(viol(&format!("eq-key-lookup:{kk}"), format!("a table keyed by {} is not hit by the equal value {}", a.name, b.name), &names));
        }
    }
    if eq && (lt(x, y) || lt(y, x)) {
        out.push(viol(&format!("eq-but-less:{kk}"), format!("{} == {} and yet one is less than the other", a.name, b.name), &names));
    }
    if eq && (!le(x, y) || !le(y, x)) && !matches!(x, Value::Nil) {
        out.push(viol(&format!("eq-but-not-le:{kk}"), format!("{} == {} but <= does not hold both ways", a.name, b.name), &names));
    }
    if lt(x, y) && lt(y, x) {
        out.push(viol(&format!("order-asymmetry:{kk}"), format!("{} < {} and {} < {}", a.name, b.name, b.name, a.name), &names));
    }
    if lt(x, y) && !le(x, y) {
        out.push(viol(&format!("lt-not-le:{kk}"), format!("{} < {} but not <=", a.name, b.name), &names));
    }
}

fn check_all(tier: Tier, out: &mut ChunkResult, only: Option<&J>) -> Vec<Violation> {
    let mut vm: Vm<()> = Vm::new(()).unwrap();
    vm.runtime_data = cao_lang::vm::runtime::RuntimeData::new(64 << 20, 256, 256).unwrap();
    let u = universe(&mut vm);
    let mut vs: Vec<Violation> = Vec::new();
    let find = |n: &str| u.iter().position(|e| e.name == n);
    if let Some(case) = only {
        if case["law"].as_str().map(|l| l.starts_with("mutation")).unwrap_or(false) {
            mutation_histories(&mut vs, out);
            let law = case["law"].as_str().unwrap_or("");
            vs.retain(|v| v.key == law);
            return vs;
        }
        if case["law"].as_str().map(|l| l.starts_with("layout")).unwrap_or(false) {
            layout_pairs(&mut vm, &mut vs, out);
            let law = case["law"].as_str().unwrap_or("");
            vs.retain(|v| v.key == law);
            return vs;
        }
        let names: Vec<String> = case["elements"].as_array().map(|a| a.iter().filter_map(|x| x.as_str().map(|s| s.to_string())).collect()).unwrap_or_default();
        let idx: Vec<usize> = names.iter().filter_map(|n| find(n)).collect();
        match idx.as_slice() {
            [i] => check_single(&u[*i], &mut vs),
            [i, j] => {
                check_pair(&u[*i], &u[*j], &mut vm, &mut vs);
                if case["law"].as_str().map(|l| l.starts_with("script")).unwrap_or(false) {
                    script_pairs(&u, Some((*i, *j)), &mut vs, out);
                }
            }
            [i, j, k] => check_triple(&u[*i], &u[*j], &u[*k], &mut vs),
            _ => {}
        }
        let law = case["law"].as_str().unwrap_or("");
        vs.retain(|v| v.key == law);
        return vs;
    }
    for e in u.iter() {
        out.evaluations += 1;
        check_single(e, &mut vs);
    }
    let mut outcomes = std::collections::BTreeSet::new();
    for a in u.iter() {
        for b in u.iter() {
            out.evaluations += 1;
            out.transitions += 4;
            let before = vs.len();
            check_pair(a, b, &mut vm, &mut vs);
            let sig = (a.host == b.host, lt(&a.host, &b.host), le(&a.host, &b.host), hash_of(&a.host) == hash_of(&b.host));
            if outcomes.insert((kind(a), kind(b), sig)) {
                out.nontrivial += 1;
            }
            out.outcome(format!("eq={} lt={} le={} samehash={}", sig.0, sig.1, sig.2, sig.3));
            if vs.len() == before && out.samples.len() < 4 && a.host == b.host && a.name != b.name {
                out.sample(|| json!({"pair": [a.name, b.name], "eq": true, "same_hash": sig.3}));
            }
        }
    }
    out.states = (u.len() * u.len()) as u64;
    for a in u.iter() {
        for b in u.iter() {
            for c in u.iter() {
                out.evaluations += 1;
                out.transitions += 3;
                check_triple(a, b, c, &mut vs);
            }
        }
    }
    out.traces = out.evaluations;
    out.count("universe", u.len() as u64);
    // precision cases: reported, never verdicts
    for a in u.iter() {
        for b in u.iter() {
            if (!a.exact || !b.exact) && matches!((&a.host, &b.host), (Value::Integer(_), Value::Real(_)) | (Value::Real(_), Value::Integer(_))) {
                out.count("precision_cases_not_judged", 1);
            }
        }
    }
    layout_pairs(&mut vm, &mut vs, out);
    mutation_histories(&mut vs, out);
    if tier == Tier::Thorough || tier == Tier::Quick {
        script_pairs(&u, None, &mut vs, out);
    }
    vs
}

fn check_single(e: &Elem, out: &mut Vec<Violation>) {
    let x = &e.host;
    let names = [e.name.as_str()];
    // everything returns
    let _ = (hash_of(x), x.as_bool(), x == x, lt(x, x));
    if e.lawful && x != x {
        out.push(viol(&format!("eq-reflexivity:{}", kind(e)), format!("{} is not equal to itself", e.name), &names));
    }
    let truthy = refsem::truthy(&e.model);
    if x.as_bool() != truthy {
        out.push(viol(&format!("truthiness:{}", kind(e)), format!("as_bool({}) = {}, the language says {truthy}", e.name, x.as_bool()), &names));
    }
}

fn check_triple(a: &Elem, b: &Elem, c: &Elem, out: &mut Vec<Violation>) {
    if !(a.lawful && b.lawful && c.lawful) {
        return;
    }
    let (x, y, z) = (&a.host, &b.host, &c.host);
    if x == y && y == z && x != z {
        out.push(viol(
            &format!("eq-transitivity:{}/{}/{}", kind(a), kind(b), kind(c)),
            format!("{} == {} == {} but the first and the last differ", a.name, b.name, c.name),
            &[a.name.as_str(), b.name.as_str(), c.name.as_str()],
        ));
    }
}

/// equal tables with different bucket layouts (built fresh vs. grown through several capacity
/// steps and shrunk back, in both insertion orders of the filler phase) must still hash equally
fn layout_pairs(vm: &mut Vm<()>, vs: &mut Vec<Violation>, out: &mut ChunkResult) {
    let key_sets: Vec<Vec<i64>> = vec![vec![0, 1], vec![1, 2], vec![3, 4], vec![0, 1, 2], vec![5, 9], vec![2, 7, 11], vec![0, 4, 8, 12], vec![1, 3, 5, 7, 9]];
    for keys in key_sets.iter() {
        for grow in [6i64, 9, 13, 19, 28, 60] {
            for fillers_first in [false, true] {
                let mk = |vm: &mut Vm<()>, grown: bool| -> Value {
                    let mut g = vm.init_table().unwrap();
                    let tt = g.as_table_mut().unwrap();
                    if grown && fillers_first {
                        for i in 0..grow {
                            tt.insert(Value::Integer(1000 + i), Value::Integer(i)).unwrap();
                        }
                    }
                    for k in keys.iter() {
                        tt.insert(Value::Integer(*k), Value::Integer(*k * 10)).unwrap();
                    }
                    if grown && !fillers_first {
                        for i in 0..grow {
                            tt.insert(Value::Integer(1000 + i), Value::Integer(i)).unwrap();
                        }
                    }
                    if grown {
                        for i in 0..grow {
                            tt.remove(Value::Integer(1000 + i)).unwrap();
                        }
                    }
                    Value::Object(g.into_inner())
                };
                let fresh = mk(vm, false);
                let grown = mk(vm, true);
                out.evaluations += 1;
                let name = format!("table keys {keys:?} fresh vs grown by {grow} (fillers first: {fillers_first})");
                // insertion order of the surviving entries is the same in both, so they are equal
                if fresh != grown {
                    if !fillers_first {
                        vs.push(viol("layout-eq", format!("{name}: equal contents in equal order compare unequal"), &[name.as_str()]));
                    }
                    continue;
                }
                if hash_of(&fresh) != hash_of(&grown) {
                    vs.push(viol("layout-eq-hash", format!("{name}: equal tables hash differently"), &[name.as_str()]));
                }
                let mut t = vm.init_table().unwrap();
                let tt = t.as_table_mut().unwrap();
                tt.insert(fresh, Value::Integer(77)).unwrap();
                if tt.get(&grown).copied() != Some(Value::Integer(77)) {
                    vs.push(viol("layout-eq-key-lookup", format!("{name}: a table keyed by one is not hit by the other"), &[name.as_str()]));
                }
                out.nontrivial += 1;
            }
        }
    }
}

/// Equality and hashing stay coherent while tables change: outer = {0: mid, "s": 1}, mid = {0: inner},
/// inner = {}. Every history (depth 4) of: hash / compare one of the three, insert into / overwrite in
/// / pop from one of the three through its own handle; after every step each of the three is compared
/// with a structural copy built from fresh objects: they must be equal and hash equally.
fn mutation_histories(vs: &mut Vec<Violation>, out: &mut ChunkResult) {
    const OPS: u64 = 15;
    const DEPTH: u32 = 4;
    let total = OPS.pow(DEPTH);
    for code in 0..total {
        let mut vm: Vm<()> = Vm::new(()).unwrap();
        let mut inner = vm.init_table().unwrap();
        let mut mid = vm.init_table().unwrap();
        let mut outer = vm.init_table().unwrap();
        let (iv, mv, ov) = (Value::Object(std::ptr::NonNull::from(&*inner)), Value::Object(std::ptr::NonNull::from(&*mid)), Value::Object(std::ptr::NonNull::from(&*outer)));
        mid.as_table_mut().unwrap().insert(Value::Integer(0), iv).unwrap();
        outer.as_table_mut().unwrap().insert(Value::Integer(0), mv).unwrap();
        outer.as_table_mut().unwrap().insert(Value::Integer(5), Value::Integer(1)).unwrap();
        let mut c = code;
        let mut hist: Vec<u64> = Vec::new();
        let mut sink = 0u64;
        for step in 0..DEPTH {
            let op = c % OPS;
            c /= OPS;
            hist.push(op);
            let which = (op % 3) as usize;
            let vals = [iv, mv, ov];
            let tabs: [&mut cao_lang::vm::runtime::cao_lang_object::CaoLangObject; 3] = [&mut *inner, &mut *mid, &mut *outer];
            match op / 3 {
                0 => sink ^= hash_of(&vals[which]),
                1 => sink ^= (vals[which] == vals[(which + 1) % 3]) as u64,
                2 => {
                    let _ = tabs.into_iter().nth(which).unwrap().as_table_mut().unwrap().insert(Value::Integer(10 + step as i64), Value::Integer(step as i64));
                }
                3 => {
                    let _ = tabs.into_iter().nth(which).unwrap().as_table_mut().unwrap().insert(Value::Integer(5), Value::Integer(100 + step as i64));
                }
                _ => {
                    // never pops the link to the nested table (entry 0 is the oldest)
                    let t = tabs.into_iter().nth(which).unwrap().as_table_mut().unwrap();
                    if t.len() > 1 {
                        let _ = t.pop();
                    }
                }
            }
            out.evaluations += 1;
            out.transitions += 1;
            for (name, v) in [("inner", iv), ("mid", mv), ("outer", ov)] {
                let Ok(owned) = OwnedValue::try_from(v) else { continue };
                let Ok(copy) = vm.insert_value(&owned) else { continue };
                let _keep = match copy {
                    Value::Object(o) => Some(cao_lang::vm::runtime::cao_lang_object::ObjectGcGuard::new(o)),
                    _ => None,
                };
                if v != copy {
                    if vs.len() < 5 {
                        vs.push(viol("mutation-eq", format!("history {hist:?}: {name} is not equal to a structural copy of itself"), &[name]));
                    }
                } else if hash_of(&v) != hash_of(&copy) && vs.len() < 5 {
                    vs.push(viol("mutation-eq-hash", format!("history {hist:?}: {name} equals a copy built from fresh objects but hashes differently ({} vs {})", hash_of(&v), hash_of(&copy)), &[name]));
                }
            }
        }
        let _ = sink;
        out.nontrivial += 1;
    }
    out.count("mutation_histories", total);
}

/// script seam: the same pairs through compiled cards must agree with the host-level results
fn script_pairs(u: &[Elem], only: Option<(usize, usize)>, vs: &mut Vec<Violation>, out: &mut ChunkResult) {
    let natives = refsem::default_natives();
    for (i, a) in u.iter().enumerate() {
        for (j, b) in u.iter().enumerate() {
            if let Some(o) = only {
                if o != (i, j) {
                    continue;
                }
            }
            let (Some(sa), Some(sb)) = (&a.script, &b.script) else { continue };
            if a.nan || b.nan {
                continue;
            }
            let rename = |cards: &Vec<C>, to: &str| -> Vec<C> {
                let js = serde_json::to_string(cards).unwrap().replace("\"VAR\"", &format!("\"{to}\""));
                serde_json::from_str(&js).unwrap()
            };
            let mut cards = rename(sa, "va");
            cards.extend(rename(sb, "vb"));
            for (g, op) in [("eq", BinOp::Equals), ("ne", BinOp::NotEquals), ("lt", BinOp::Less), ("le", BinOp::LessOrEq)] {
                cards.push(ir::sg(g, bin(op, ir::rv("va"), ir::rv("vb"))));
            }
            let m = ir::module(vec![("main", ir::func(&[], cards))]);
            let (co, prog) = realrun::compile_real(&m);
            let (CompileOutcome::Ok, Some(prog)) = (co, prog) else {
                vs.push(viol("script-compile", format!("comparison program for {} / {} does not compile", a.name, b.name), &[a.name.as_str(), b.name.as_str()]));
                continue;
            };
            let got = realrun::run_program(&m, &prog, &natives, &RunCfg::default());
            out.evaluations += 1;
            out.traces += 1;
            let want = [("eq", a.host == b.host), ("ne", a.host != b.host), ("lt", lt(&a.host, &b.host)), ("le", le(&a.host, &b.host))];
            for (g, w) in want {
                let have = got.globals.get(g).cloned();
                if have != Some(Ob::Int(w as i64)) {
                    vs.push(viol(
                        &format!("script-vs-host:{g}:{}/{}", kind(a), kind(b)),
                        format!("the {g} card on {} , {} gives {:?}; the host-level operator gives {w} (run result {})", a.name, b.name, have.map(|h| h.short()), got.result),
                        &[a.name.as_str(), b.name.as_str()],
                    ));
                }
            }
        }
    }
}

impl Check for C19 {
    fn id(&self) -> &'static str {
        "C19"
    }
    fn info(&self, _tier: Tier) -> CheckInfo {
        CheckInfo {
            rule: "finite universe built through the host API of one real VM: nil; ints {0,1,-1,2,3,2^53,2^53+1,MIN,MAX}; reals {0.0,-0.0,1.0,-1.0,0.5,2.0,3.0,2^53,2^63,-2^63,1e19,-1e19,1e300,inf,-inf,NaN}; strings \"\",a,b,ab,abc as two distinct objects each; tables {}, {0:1} twice, {0:1,1:2}, {1:2,0:1}, {\"a\":{}}, {0:\"a\"}, two tables grown to 20+ entries and shrunk back; plus 96 fresh-vs-grown table pairs (8 key sets x growth by 6..60 fillers x filler phase before/after) with equal contents and different bucket layouts; function, native, closure values and a table holding a function; plus every history of depth 4 over 15 operations (hash / compare / insert / overwrite / pop on each of three nested tables outer -> mid -> inner through its own handle), after every step each table must equal a structural copy built from fresh objects and hash like it. All pairs and all triples: reflexivity, symmetry, transitivity of ==; a==b => equal hashes (signed zero excepted) and 'a table keyed by a is hit by b'; a==b => neither is less and <= holds both ways; a<b => not b<a and a<=b; == and the order agree with the reference semantics (an integer against a real where one of them is not exactly representable in the other kind must agree with the exact numeric order or with the order after converting the integer to a real); truthiness; every operation returns on every element. Script seam: every constructible pair through compiled Equals/NotEquals/Less/LessOrEq cards agrees with the host operators. states = pairs; distinct_nontrivial = distinct (kind, kind, eq, lt, le, same-hash) signatures".into(),
            bound: "all pairs and triples of the universe (exhaustive)".into(),
            exhaustive: true,
            assumptions: vec![
                "int/real pairs that are not exactly representable in both kinds (2^53+1, i64::MAX/MIN against reals): both the exact numeric order and the order after converting the integer to a real are accepted (the statement does not say how ties at the f64 rounding boundary resolve); equality of such pairs is not judged against the reference".into(),
                "NaN is excluded from the laws, signed zeros from the hash law (documented exceptions)".into(),
                "self-containing tables are excluded (acyclic values only; see C04's open findings)".into(),
            ],
            explanation: "every relation is computed by the real Value implementations (==, partial_cmp, Hash through the map's hasher, CaoLangTable lookup, compiled comparison cards)".into(),
        }
    }
    fn units(&self, _tier: Tier) -> u64 {
        1
    }
    fn run_unit(&self, tier: Tier, _unit: u64, out: &mut ChunkResult) {
        let vs = check_all(tier, out, None);
        for v in vs {
            out.violation(v);
        }
    }
    fn replay(&self, case: &J) -> Option<Violation> {
        let mut out = ChunkResult::default();
        check_all(Tier::Quick, &mut out, Some(case)).into_iter().next()
    }
}
