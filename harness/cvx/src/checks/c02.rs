//! C02 — garbage collection never invalidates a value the program can still use.
//!
//! E-sched: for one deterministic execution with n allocation points, the harness decides at which
//! of them a collection is forced (natural trigger switched off): no collection, every single
//! point, every pair, every second point, all points, and all 2^n subsets for small n. The
//! collector runs in quarantine mode (swept objects are poisoned in place, not released), so a
//! later use is memory-safe, deterministic and observable. Oracles on every execution:
//!  (A) heap audit after every instruction during which a collection ran: nothing reachable from
//!      the value stack, globals, frame closures, the open-upvalue list or guarded objects is dead;
//!  (B) operand audit: a value that was among the top four stack slots when an instruction was
//!      dispatched and has been swept when the instruction completes was popped and swept while
//!      the instruction (or the host function it called) was still working on it;
//!  (C) differential: the observable outcome equals that of the run without collections.

use crate::realrun::{self, CompileOutcome, Host, RunCfg};
use cao_lang::prelude::*;
use cao_lang::verif::{self, ObjKind};
use cvx_core::engine::{Check, CheckInfo, ChunkResult, Tier, Violation};
use cvx_core::gen_basic::{FStmt, Family};
use cvx_core::gen_more::FCall;
use cvx_core::ir::{self, *};
use cvx_core::refsem;
use serde_json::{json, Value as J};
use std::cell::RefCell;
use std::collections::{BTreeMap, BTreeSet};
use std::rc::Rc;
use std::sync::OnceLock;

pub struct C02;

fn add(a: C, c: C) -> C {
    bin(BinOp::Add, a, c)
}
fn sink(c: C) -> C {
    sg("_sink", c)
}
fn log2(n: &str, v: C) -> C {
    sink(native("log2", vec![s(n), v]))
}

// ---- templates -------------------------------------------------------------------------------------

/// one program per allocating site and operand shape
pub fn templates() -> Vec<(String, Module)> {
    let mut v: Vec<(String, Module)> = Vec::new();
    let mut t = |name: &str, main: Vec<C>, fns: Vec<(&str, Func)>| {
        let mut functions = vec![("main", func(&[], main))];
        functions.extend(fns);
        v.push((name.to_string(), module(functions)));
    };
    let fill = |n: i64| -> Vec<C> {
        let mut c = vec![sv("t", C::CreateTable)];
        for i in 0..n {
            c.push(C::SetProperty(b(int(i * 10)), b(rv("t")), b(int(100 + i))));
        }
        c
    };
    // literals and plain creation
    t("string-literal", vec![sg("a", s("first")), sg("b", s("second")), log2("a", rv("a"))], vec![]);
    t("create-table", vec![sg("a", C::CreateTable), sg("b", C::CreateTable), log2("a", rv("a"))], vec![]);
    t("array-of-strings", vec![sv("t", C::Array(vec![s("x"), s("y"), s("z")])), sg("g", rv("t")), log2("t", rv("t"))], vec![]);
    // SetProperty with fresh key and / or value, at the growth step of the table, into variables and temporaries
    for n in [0i64, 4, 5, 6] {
        let mut c = fill(n);
        c.push(C::SetProperty(b(s("fresh value")), b(rv("t")), b(s("fresh key"))));
        c.push(log2("t", rv("t")));
        c.push(sg("g", rv("t")));
        t(&format!("set-property-fresh-both-{n}"), c, vec![]);
        let mut c = fill(n);
        c.push(C::SetProperty(b(s("fresh value")), b(rv("t")), b(int(1))));
        c.push(log2("t", rv("t")));
        t(&format!("set-property-fresh-value-{n}"), c, vec![]);
        let mut c = fill(n);
        c.push(C::SetProperty(b(int(1)), b(rv("t")), b(s("fresh key"))));
        c.push(log2("t", rv("t")));
        t(&format!("set-property-fresh-key-{n}"), c, vec![]);
        let mut c = fill(n);
        c.push(C::Append(b(s("fresh value")), b(rv("t"))));
        c.push(log2("t", rv("t")));
        t(&format!("append-fresh-value-{n}"), c, vec![]);
        let mut c = fill(n);
        c.push(C::Append(b(C::CreateTable), b(rv("t"))));
        c.push(log2("len", C::Len(b(rv("t")))));
        c.push(sg("g", rv("t")));
        t(&format!("append-fresh-table-{n}"), c, vec![]);
    }
    t("set-property-dotted", vec![sv("t", C::CreateTable), sv("t.name", s("dotted value")), sv("t.other", C::CreateTable), log2("t", rv("t.name"))], vec![]);
    t("set-property-into-temporary", vec![sg("keep", s("kept")), C::SetProperty(b(s("v")), b(C::CreateTable), b(s("k"))), log2("keep", rv("keep"))], vec![]);
    // rows
    t("get-row-of-variable", vec![sv("t", C::CreateTable), C::SetProperty(b(s("row value")), b(rv("t")), b(s("row key"))), sv("row", C::Get(b(rv("t")), b(int(0)))), log2("k", rv("row.key")), log2("v", rv("row.value"))], vec![]);
    t("get-row-of-temporary", vec![sv("row", C::Get(b(call("mk", vec![])), b(int(0)))), log2("k", rv("row.key")), log2("v", rv("row.value"))], vec![("mk", func(&[], vec![sv("t", C::CreateTable), C::SetProperty(b(s("row value")), b(rv("t")), b(s("row key"))), C::Return(b(rv("t")))]))]);
    t("pop-table", vec![sv("t", C::CreateTable), C::Append(b(s("popped")), b(rv("t"))), sv("p", C::PopTable(b(rv("t")))), sg("j", s("junk")), log2("p", rv("p"))], vec![]);
    t("for-each-over-strings", vec![sv("t", C::Array(vec![s("one"), s("two")])), C::ForEach { i: None, k: Some("k".into()), v: Some("v".into()), iterable: b(rv("t")), body: b(comp(vec![sg("j", s("junk in loop")), log2("v", rv("v"))])) }], vec![]);
    t("for-each-over-temporary", vec![C::ForEach { i: None, k: None, v: Some("v".into()), iterable: b(call("mk", vec![])), body: b(comp(vec![sg("j", s("junk in loop")), log2("v", rv("v"))])) }], vec![("mk", func(&[], vec![sv("t", C::CreateTable), C::Append(b(s("one")), b(rv("t"))), C::Append(b(s("two")), b(rv("t"))), C::Return(b(rv("t")))]))]);
    // function-like values
    t("function-values", vec![sg("f", C::Function("one".into())), sg("n", C::NativeFunction("echo".into())), sg("r", C::DynCall(b(rv("f")), vec![])), sg("e", C::DynCall(b(rv("n")), vec![s("echoed")])), log2("e", rv("e"))], vec![("one", func(&[], vec![C::Return(b(s("from one")))]))]);
    t("static-call-allocating", vec![sg("r", call("mk", vec![s("argument")])), sg("j", s("junk")), log2("r", rv("r"))], vec![("mk", func(&["p"], vec![sv("l", s("local of callee")), sv("t", C::CreateTable), sv("t.p", rv("p")), sv("t.l", rv("l")), C::Return(b(rv("t")))]))]);
    // closures: open upvalues, closed upvalues, nested, running while only the frame references them
    t("closure-open-upvalue", vec![sv("x", s("captured string")), sv("c", C::Closure(vec![], vec![sg("j", s("junk in closure")), C::Return(b(rv("x")))])), log2("r", C::DynCall(b(rv("c")), vec![])), sv("x", s("replaced")), log2("r2", C::DynCall(b(rv("c")), vec![]))], vec![]);
    t(
        "closure-closed-upvalue",
        vec![sg("c", call("mk", vec![])), sg("j", s("junk")), log2("r", C::DynCall(b(rv("c")), vec![])), sg("j2", C::CreateTable), log2("r2", C::DynCall(b(rv("c")), vec![]))],
        vec![("mk", func(&[], vec![sv("x", s("captured by returned closure")), sv("c", C::Closure(vec![], vec![sv("tmp", s("junk in closure")), C::Return(b(rv("x")))])), C::Return(b(rv("c")))]))],
    );
    t("closure-only-frame-reference", vec![sv("x", s("captured")), log2("r", C::DynCall(b(C::Closure(vec![], vec![sv("a", s("alloc 1")), sv("bb", C::CreateTable), C::Return(b(rv("x")))])), vec![]))], vec![]);
    // a closure that only its own, *suspended* frame references: it was called as a temporary and is waiting for a callee that allocates
    t(
        "closure-suspended-frame",
        vec![log2("r", C::DynCall(b(call("mk", vec![])), vec![])), log2("r2", C::DynCall(b(C::Closure(vec![], vec![sv("y", call("churn", vec![])), C::Return(b(rv("y")))])), vec![]))],
        vec![
            ("mk", func(&[], vec![sv("x", s("captured by the waiting closure")), C::Return(b(C::Closure(vec![], vec![sv("y", call("churn", vec![])), sv("z", call("churn2", vec![])), C::Return(b(rv("x")))])))])),
            ("churn", func(&[], vec![sv("a", s("alloc 1")), sv("bb", C::CreateTable), C::Return(b(rv("a")))])),
            ("churn2", func(&[], vec![sv("c", s("alloc 2")), C::Return(b(call("churn", vec![])))])),
        ],
    );
    t(
        "closure-nested",
        vec![
            sv("x", s("outer captured")),
            sv("mid", C::Closure(vec![], vec![sv("m", s("mid local")), sv("inner", C::Closure(vec![], vec![sv("j", s("junk")), C::Return(b(add(C::Len(b(rv("x"))), C::Len(b(rv("m"))))))])), C::Return(b(rv("inner")))])),
            sv("kept", C::DynCall(b(rv("mid")), vec![])),
            sg("j", s("junk")),
            log2("r", C::DynCall(b(rv("kept")), vec![])),
        ],
        vec![],
    );
    t(
        "closure-per-iteration",
        vec![
            sg("all", C::CreateTable),
            C::Repeat { n: b(int(3)), i: Some("i".into()), body: b(comp(vec![sv("x", s("per iteration")), sv("c", C::Closure(vec![], vec![C::Return(b(rv("x")))])), C::Append(b(rv("c")), b(rv("all")))])) },
            C::ForEach { i: None, k: None, v: Some("f".into()), iterable: b(rv("all")), body: b(log2("r", C::DynCall(b(rv("f")), vec![]))) },
        ],
        vec![],
    );
    // natives that allocate / receive fresh objects
    t("native-pack", vec![sg("p", native("pack2", vec![s("first arg"), s("second arg")])), sg("j", s("junk")), log2("p", rv("p"))], vec![]);
    t("native-echo-fresh", vec![sg("e", native("echo2", vec![s("echo me"), C::CreateTable])), sg("j", s("junk")), log2("e", rv("e"))], vec![]);
    t("native-log-fresh-args", vec![sink(native("log3", vec![s("a"), C::CreateTable, s("c")])), sg("done", int(1))], vec![]);
    // the allocation API as a host function uses it
    for f in ["mk_owned", "mk_guarded", "mk_chain"] {
        t(&format!("host-{f}"), vec![sg("r", native(f, vec![s("fresh argument")])), sg("j", s("junk")), log2("r", rv("r"))], vec![]);
        t(&format!("host-{f}-twice"), vec![sv("a", native(f, vec![s("first")])), sv("bb", native(f, vec![rv("a")])), log2("a", rv("a")), log2("b", rv("bb"))], vec![]);
    }
    // a host function storing fresh objects in a table of the script, across the growth steps
    for f in ["push_fresh", "insert_fresh"] {
        t(
            &format!("host-{f}-14-times"),
            vec![sg("gt", C::CreateTable), C::Repeat { n: b(int(14)), i: None, body: b(comp(vec![sv("got", native(f, vec![rv("gt")])), log2("got", rv("got"))])) }, log2("gt", rv("gt"))],
            vec![],
        );
    }
    // a table used as a key is changed (its hash with it), collections run, the change is undone
    t(
        "key-table-mutated-and-restored",
        vec![
            sv("k", C::CreateTable),
            sv("tt", C::CreateTable),
            C::SetProperty(b(s("payload of the mutated key")), b(rv("tt")), b(rv("k"))),
            C::Append(b(int(1)), b(rv("k"))),
            sg("j", s("junk 1")),
            sg("j2", C::CreateTable),
            sink(C::PopTable(b(rv("k")))),
            sg("j3", s("junk 2")),
            log2("read", C::GetProperty(b(rv("tt")), b(rv("k")))),
            log2("tt", C::Len(b(rv("tt")))),
        ],
        vec![],
    );
    // a key that can no longer be looked up (a table changed after it was stored, a function value:
    // never equal to itself) leaves its bucket behind when the row is popped; from then on only the
    // bucket refers to the key object, and later lookups compare against it
    for (tag, key, change) in [
        ("mutated-table", C::CreateTable, Some(C::Append(b(int(1)), b(rv("k"))))),
        ("function", C::Function("kf".into()), None),
        ("closure", C::Closure(vec![], vec![C::Return(b(int(1)))]), None),
        ("native-function", C::NativeFunction("log2".into()), None),
    ] {
        let mut c = vec![sg("tt", C::CreateTable), sv("k", key), C::SetProperty(b(s("payload of the orphaned key")), b(rv("tt")), b(rv("k")))];
        c.extend(change);
        c.push(sink(C::PopTable(b(rv("tt")))));
        c.push(sv("k", C::Nil));
        c.push(sg("_sink", C::Nil));
        c.push(sg("j", s("junk 1")));
        c.push(sg("j2", C::CreateTable));
        c.push(log2("read", C::GetProperty(b(rv("tt")), b(C::CreateTable))));
        c.push(C::SetProperty(b(int(2)), b(rv("tt")), b(C::CreateTable)));
        c.push(sg("j3", s("junk 2")));
        c.push(log2("read2", C::GetProperty(b(rv("tt")), b(C::CreateTable))));
        c.push(log2("tt", C::Len(b(rv("tt")))));
        t(&format!("orphaned-bucket-key-{tag}"), c, vec![("kf", func(&[], vec![C::Return(b(int(1)))]))]);
    }
    // one object as key and as value
    t("same-object-key-and-value", vec![sv("sk", s("key and value")), sv("tt", C::CreateTable), C::SetProperty(b(rv("sk")), b(rv("tt")), b(rv("sk"))), sg("j", s("junk")), log2("tt", rv("tt")), C::SetProperty(b(rv("tt")), b(rv("tt")), b(int(1))), sg("j2", s("junk"))], vec![]);
    // library functions backed by natives, with allocating key functions
    let strings = vec![sv("t", C::CreateTable), C::Append(b(s("bbb")), b(rv("t"))), C::Append(b(s("a")), b(rv("t"))), C::Append(b(s("cc")), b(rv("t")))];
    for f in ["min", "max", "sorted", "to_array"] {
        let mut c = strings.clone();
        c.push(sg("r", call(&format!("std.{f}"), vec![rv("t")])));
        c.push(sg("j", s("junk")));
        c.push(log2("r", rv("r")));
        t(&format!("std-{f}"), c, vec![]);
    }
    for f in ["min_by_key", "max_by_key", "sorted_by_key"] {
        let mut c = strings.clone();
        c.push(sg("r", call(&format!("std.{f}"), vec![C::Function("kf".into()), rv("t")])));
        c.push(log2("r", rv("r")));
        t(&format!("std-{f}-allocating-key"), c, vec![("kf", func(&["key", "value"], vec![sv("tmp", s("allocated in key function")), sv("tt", C::CreateTable), C::Return(b(C::Len(b(rv("value")))))]))]);
    }
    // key functions returning fresh objects: the native keeps the best key in a local of its own
    // (strings are ordered by length)
    for f in ["min_by_key", "max_by_key", "sorted_by_key"] {
        for (tag, order) in [("asc", ["k", "kk", "kkk"]), ("desc", ["kkk", "kk", "k"]), ("mid", ["kk", "kkk", "k"])] {
            let mut c = strings.clone();
            c.push(sg("r", call(&format!("std.{f}"), vec![C::Function("kf".into()), rv("t")])));
            c.push(log2("r", rv("r")));
            let kf = func(
                &["key", "value"],
                vec![
                    C::IfTrue(b(bin(BinOp::Equals, C::Len(b(rv("value"))), int(3))), b(C::Return(b(s(order[0]))))),
                    C::IfTrue(b(bin(BinOp::Equals, C::Len(b(rv("value"))), int(1))), b(C::Return(b(s(order[1]))))),
                    C::Return(b(s(order[2]))),
                ],
            );
            t(&format!("std-{f}-fresh-string-key-{tag}"), c, vec![("kf", kf)]);
        }
    }
    // key functions returning a fresh object that is equal (by content) to the row's value
    for f in ["min_by_key", "max_by_key", "sorted_by_key"] {
        let mut c = strings.clone();
        c.push(sg("r", call(&format!("std.{f}"), vec![C::Function("kf".into()), rv("t")])));
        c.push(log2("r", rv("r")));
        let kf = func(
            &["key", "value"],
            vec![
                C::IfTrue(b(bin(BinOp::Equals, C::Len(b(rv("value"))), int(3))), b(C::Return(b(s("bbb"))))),
                C::IfTrue(b(bin(BinOp::Equals, C::Len(b(rv("value"))), int(1))), b(C::Return(b(s("a"))))),
                C::Return(b(s("cc"))),
            ],
        );
        t(&format!("std-{f}-fresh-key-equal-to-value"), c, vec![("kf", kf)]);
        // ... and fresh tables as keys (ordered by length), equal in content to nothing / to each other
        let mut c = strings.clone();
        c.push(sg("r", call(&format!("std.{f}"), vec![C::Function("kf".into()), rv("t")])));
        c.push(log2("r", rv("r")));
        let kf = func(&["key", "value"], vec![sv("k", C::CreateTable), C::Repeat { n: b(C::Len(b(rv("value")))), i: Some("i".into()), body: b(C::Append(b(rv("i")), b(rv("k")))) }, C::Return(b(rv("k")))]);
        t(&format!("std-{f}-fresh-table-key"), c, vec![("kf", kf)]);
    }
    // a key function that removes rows from the table it is called for, and allocates
    for f in ["min_by_key", "max_by_key", "sorted_by_key"] {
        let mut c = vec![sg("gt", C::CreateTable)];
        for w in ["row zero", "row one", "row two", "row three"] {
            c.push(C::Append(b(s(w)), b(rv("gt"))));
        }
        c.push(sg("r", call(&format!("std.{f}"), vec![C::Function("kf".into()), rv("gt")])));
        c.push(sg("j", s("junk")));
        c.push(log2("r", rv("r")));
        c.push(log2("left", C::Len(b(rv("gt")))));
        let kf = func(&["key", "value"], vec![sg("_sink", C::PopTable(b(rv("gt")))), sv("tmp", s("allocated in the key function")), sv("tmp2", C::CreateTable), C::Return(b(C::Len(b(rv("value")))))]);
        t(&format!("std-{f}-key-function-pops-the-table"), c.clone(), vec![("kf", kf)]);
        // ... and hands back the row's own value as the key
        let kf = func(&["key", "value"], vec![sg("_sink", C::PopTable(b(rv("gt")))), sv("tmp", s("allocated in the key function")), sv("tmp2", C::CreateTable), C::Return(b(rv("value")))]);
        t(&format!("std-{f}-key-function-pops-the-table-returns-the-value"), c, vec![("kf", kf)]);
    }
    // a key function returning the identical object for every row (the native guards it once per row)
    for f in ["min_by_key", "max_by_key", "sorted_by_key"] {
        let mut c = strings.clone();
        c.insert(0, sg("shared", s("one shared key object")));
        c.push(sg("r", call(&format!("std.{f}"), vec![C::Function("kf".into()), rv("t")])));
        c.push(sg("j", s("junk")));
        c.push(log2("r", rv("r")));
        c.push(sg("shared", int(0)));
        c.push(sg("j2", s("more junk")));
        t(&format!("std-{f}-same-key-object-for-every-row"), c, vec![("kf", func(&["key", "value"], vec![C::Return(b(rv("shared")))]))]);
    }
    for f in ["filter", "map", "any"] {
        let mut c = strings.clone();
        c.push(sg("r", call(&format!("std.{f}"), vec![C::Function("cb".into()), rv("t")])));
        c.push(log2("r", rv("r")));
        t(&format!("std-{f}-allocating-callback"), c, vec![("cb", func(&["k", "v", "i"], vec![sv("tmp", s("allocated in callback")), C::Return(b(s("fresh result")))]))]);
    }
    // host function re-entering the script with fresh objects
    t("reenter-fresh-argument", vec![sg("r", native("reenter1", vec![C::Function("cb".into()), s("fresh argument")])), log2("r", rv("r"))], vec![("cb", func(&["p"], vec![sv("t", C::CreateTable), sv("t.p", rv("p")), sv("j", s("junk")), C::Return(b(rv("t")))]))]);
    t(
        "reenter-closure",
        vec![sv("x", s("captured")), sv("c", C::Closure(vec!["p".into()], vec![sv("j", s("junk")), sv("t", C::CreateTable), sv("t.x", rv("x")), sv("t.p", rv("p")), C::Return(b(rv("t")))])), sg("r", native("reenter1", vec![rv("c"), s("fresh argument")])), log2("r", rv("r"))],
        vec![],
    );
    v
}

// ---- host functions exercising the allocation API -------------------------------------------------------

type HR = Result<Value, ExecutionErrorPayload>;

/// the value of a guarded object while the guard stays alive
fn obj(g: &cao_lang::vm::runtime::cao_lang_object::ObjectGcGuard) -> Value {
    Value::Object(std::ptr::NonNull::from(&**g))
}

fn owned_fixture() -> OwnedValue {
    let e = |k: OwnedValue, v: OwnedValue| OwnedEntry { key: k, value: v };
    let st = |x: &str| OwnedValue::String(x.to_string());
    OwnedValue::Table(vec![
        e(st("k1"), st("v1")),
        e(st("k2"), OwnedValue::Table(vec![e(st("inner"), st("x")), e(OwnedValue::Integer(7), st("seven")), e(st("deep"), OwnedValue::Table(vec![e(st("a"), st("b"))]))])),
        e(OwnedValue::Integer(3), st("three")),
    ])
}

/// `Vm::insert_value` of a nested owned value
fn n_mk_owned(vm: &mut Vm<Host>, _x: Value) -> HR {
    vm.insert_value(&owned_fixture())
}

/// every `init_*` constructor; all guards are held until the result table is complete
fn n_mk_guarded(vm: &mut Vm<Host>, x: Value) -> HR {
    let a = vm.init_string("guarded string")?;
    let mut t = vm.init_table()?;
    let f = vm.init_function(Handle::from_u32(1), 0)?;
    let n = vm.init_native_function(Handle::from_bytes(b"echo"))?;
    let c = vm.init_closure(Handle::from_u32(1), 0)?;
    let inner = vm.init_table()?;
    let s2 = vm.init_string("second guarded string")?;
    let table = t.as_table_mut().unwrap();
    table.insert(Value::Integer(0), obj(&a))?;
    table.insert(Value::Integer(1), obj(&f))?;
    table.insert(Value::Integer(2), obj(&n))?;
    table.insert(Value::Integer(3), obj(&c))?;
    table.insert(Value::Integer(4), obj(&inner))?;
    table.insert(obj(&s2), x)?;
    let _ = (&a, &f, &n, &c, &inner, &s2);
    Ok(Value::Object(t.into_inner()))
}

/// guards handed over one at a time: only the result table is guarded, everything else hangs off it
fn n_mk_chain(vm: &mut Vm<Host>, x: Value) -> HR {
    let mut t = vm.init_table()?;
    for i in 0..6i64 {
        let st = vm.init_string(&format!("chained string {i}"))?;
        t.as_table_mut().unwrap().insert(Value::Integer(i), Value::Object(st.into_inner()))?;
    }
    let mut inner = vm.init_table()?;
    t.as_table_mut().unwrap().insert(Value::Integer(100), obj(&inner))?;
    let st = vm.init_string("string of the inner table")?;
    inner.as_table_mut().unwrap().insert(Value::Integer(0), Value::Object(st.into_inner()))?;
    inner.as_table_mut().unwrap().insert(Value::Integer(1), x)?;
    Ok(Value::Object(t.into_inner()))
}

/// a host function appending / inserting fresh, unguarded objects into a table of the script
fn n_push_fresh(vm: &mut Vm<Host>, t: Value) -> HR {
    let Value::Object(mut o) = t else { return Err(ExecutionErrorPayload::invalid_argument("table expected")) };
    let st = vm.init_string("appended by the host")?.into_inner();
    let table = unsafe { o.as_mut().as_table_mut().ok_or_else(|| ExecutionErrorPayload::invalid_argument("table expected"))? };
    table.append(Value::Object(st))?;
    Ok(Value::Object(st))
}

fn n_insert_fresh(vm: &mut Vm<Host>, t: Value) -> HR {
    let Value::Object(mut o) = t else { return Err(ExecutionErrorPayload::invalid_argument("table expected")) };
    let n = unsafe { o.as_ref().as_table().map(|t| t.len()).unwrap_or(0) };
    let key = vm.init_string(&format!("host key {n}"))?.into_inner();
    let table = unsafe { o.as_mut().as_table_mut().ok_or_else(|| ExecutionErrorPayload::invalid_argument("table expected"))? };
    table.insert(Value::Object(key), Value::Object(key))?;
    Ok(Value::Object(key))
}

fn register_api_natives(vm: &mut Vm<Host>) {
    use cao_lang::traits::into_f1;
    vm.register_native_function("mk_owned", into_f1(n_mk_owned)).unwrap();
    vm.register_native_function("mk_guarded", into_f1(n_mk_guarded)).unwrap();
    vm.register_native_function("mk_chain", into_f1(n_mk_chain)).unwrap();
    vm.register_native_function("push_fresh", into_f1(n_push_fresh)).unwrap();
    vm.register_native_function("insert_fresh", into_f1(n_insert_fresh)).unwrap();
}

// ---- one execution under a schedule -------------------------------------------------------------------

#[derive(Default)]
struct Audit {
    /// per nesting level of `_run`: (opcode, object addresses in the top four slots, gc count) at dispatch
    pending: BTreeMap<u32, (u8, Vec<usize>, u64)>,
    findings: Vec<(String, String)>,
    audits: u64,
}

fn kind_name(k: ObjKind) -> &'static str {
    match k {
        ObjKind::Table => "table",
        ObjKind::String => "string",
        ObjKind::Function => "function",
        ObjKind::NativeFunction => "native-function",
        ObjKind::Closure => "closure",
        ObjKind::Upvalue => "upvalue",
    }
}

fn opname(op: u8) -> String {
    static TABLE: OnceLock<Vec<(u8, String, usize)>> = OnceLock::new();
    TABLE.get_or_init(verif::instruction_table).iter().find(|x| x.0 == op).map(|x| x.1.clone()).unwrap_or_else(|| format!("op{op}"))
}

/// (A): is anything reachable from the roots dead? -> (role, object kind)
fn heap_audit(rt: &cao_lang::vm::runtime::RuntimeData) -> Option<(String, String)> {
    let objs = verif::objects(rt);
    if !objs.iter().any(|o| o.dead) {
        return None;
    }
    let by_addr: BTreeMap<usize, &verif::ObjView> = objs.iter().map(|o| (o.addr, o)).collect();
    let mut roots: Vec<(usize, String)> = Vec::new();
    for v in verif::stack(rt).iter() {
        if let Value::Object(o) = v {
            roots.push((o.as_ptr() as usize, "value-stack".into()));
        }
    }
    for v in verif::globals(rt).iter() {
        if let Value::Object(o) = v {
            roots.push((o.as_ptr() as usize, "global".into()));
        }
    }
    for f in verif::frames(rt) {
        if let Some(c) = f.closure_obj {
            roots.push((c, "frame-closure".into()));
        }
    }
    match verif::open_upvalues(rt) {
        Ok(l) | Err(l) => {
            for a in l {
                roots.push((a, "open-upvalue-list".into()));
            }
        }
    }
    for o in objs.iter() {
        if o.marker == 3 && !o.dead {
            roots.push((o.addr, "guarded-object".into()));
        }
    }
    let mut seen: BTreeSet<usize> = BTreeSet::new();
    let mut work: Vec<(usize, String, u32)> = roots.into_iter().map(|(a, r)| (a, r, 0)).collect();
    while let Some((a, role, depth)) = work.pop() {
        if !seen.insert(a) {
            continue;
        }
        match by_addr.get(&a) {
            Some(o) => {
                if o.dead {
                    let how = if depth == 0 { "direct" } else { "child" };
                    return Some((format!("{role}:{how}"), kind_name(o.kind).to_string()));
                }
                for c in o.children.iter() {
                    work.push((*c, role.clone(), depth + 1));
                }
            }
            None => {
                // not a known object at all: a frame closure whose object vanished
                return Some((format!("{role}:unknown-object"), "?".into()));
            }
        }
    }
    None
}

struct SchedRun {
    result: String,
    globals: BTreeMap<String, String>,
    log: Vec<String>,
    findings: Vec<(String, String)>,
    allocs: u64,
    gcs: u64,
    panic: Option<String>,
}

fn run_sched(m: &Module, prog: &CaoCompiledProgram, sched: Rc<dyn Fn(u64) -> bool>) -> SchedRun {
    verif::reset();
    let natives = refsem::default_natives();
    let cfg = RunCfg { max_instr: 200_000, mem_limit: 256 << 20, stack: 256, call_stack: 256 };
    let mut vm: Vm<Host> = realrun::new_vm(m, &natives, &cfg);
    register_api_natives(&mut vm);
    verif::set_next_gc(&mut vm.runtime_data, usize::MAX); // the natural trigger is off
    verif::set_quarantine(true);
    let s2 = sched.clone();
    verif::set_force_gc(Some(Box::new(move |seq| s2(seq))));
    let audit = Rc::new(RefCell::new(Audit::default()));
    let a2 = audit.clone();
    verif::set_on_instr(Some(Box::new(move |ev, rt| {
        let mut a = a2.borrow_mut();
        if !ev.post {
            let top: Vec<usize> = verif::stack(rt).iter().rev().take(4).map(|v| if let Value::Object(o) = v { o.as_ptr() as usize } else { 0 }).collect();
            a.pending.insert(ev.level, (ev.opcode, top, verif::gc_count()));
            return;
        }
        let Some((op, top, gcs)) = a.pending.remove(&ev.level) else { return };
        if verif::gc_count() == gcs {
            return;
        }
        a.audits += 1;
        // (B) operands popped and swept while the instruction was working on them
        for (k, addr) in top.iter().enumerate() {
            if *addr != 0 && verif::is_dead(*addr) {
                let kind = verif::objects(rt).iter().find(|o| o.addr == *addr).map(|o| kind_name(o.kind)).unwrap_or("?");
                if a.findings.is_empty() {
                    a.findings.push((format!("operand-swept:{}:#{k}:{kind}", opname(op)), format!("{} popped its operand #{k} from the top (a {kind}) and a collection swept it before the instruction completed", opname(op))));
                }
            }
        }
        // (A) nothing reachable is dead
        if let Some((role, kind)) = heap_audit(rt) {
            if a.findings.is_empty() {
                a.findings.push((format!("reachable-dead:{}:{role}:{kind}", opname(op)), format!("after {} (a collection ran during it) a swept {kind} is reachable through {role}", opname(op))));
            }
        }
    })));
    let names = m.mentioned_names();
    let r = std::panic::catch_unwind(std::panic::AssertUnwindSafe(|| vm.run(prog)));
    verif::set_on_instr(None);
    verif::set_force_gc(None);
    let mut out = SchedRun { result: String::new(), globals: BTreeMap::new(), log: vec![], findings: vec![], allocs: verif::alloc_seq(), gcs: verif::gc_count(), panic: None };
    match r {
        Ok(r) => {
            // no guard can be alive once the run has returned
            let guarded = verif::objects(&vm.runtime_data).iter().filter(|o| o.marker == 3 && !o.dead).count();
            if guarded > 0 && audit.borrow().findings.is_empty() {
                audit.borrow_mut().findings.push(("guarded-after-run".to_string(), format!("{guarded} object(s) still carry the guard marker after the run returned")));
            }
            // final audit (the post hook does not fire for the instruction that raised an error)
            if verif::gc_count() > 0 {
                if let Some((role, kind)) = heap_audit(&vm.runtime_data).filter(|_| audit.borrow().findings.is_empty()) {
                    audit.borrow_mut().findings.push((format!("reachable-dead:end-of-run:{role}:{kind}"), format!("at the end of the run a swept {kind} is reachable through {role}")));
                }
            }
            let o = std::panic::catch_unwind(std::panic::AssertUnwindSafe(|| realrun::observe_run(&vm, prog, &names, &r)));
            match o {
                Ok(o) => {
                    out.result = o.result;
                    out.globals = o.globals.iter().map(|(k, v)| (k.clone(), v.short())).collect();
                    out.log = o.log.iter().map(|(n, a)| format!("{n}({})", a.iter().map(|x| x.short()).collect::<Vec<_>>().join(","))).collect();
                }
                Err(p) => out.panic = Some(format!("while observing: {}", cvx_core::engine::panic_message(&p))),
            }
        }
        Err(p) => out.panic = Some(cvx_core::engine::panic_message(&p)),
    }
    out.findings = audit.borrow().findings.clone();
    out.allocs = verif::alloc_seq();
    out.gcs = verif::gc_count();
    verif::set_quarantine(false);
    // releasing everything (quarantined objects included) must work
    let _ = std::panic::catch_unwind(std::panic::AssertUnwindSafe(move || {
        vm.clear();
        drop(vm);
    }));
    verif::reset();
    out
}

/// schedules for n allocation points
fn schedules(n: u64, tier: Tier) -> Vec<Vec<u64>> {
    let mut v: Vec<Vec<u64>> = Vec::new();
    let full_limit = tier.pick(8u64, 12);
    if n <= full_limit {
        for mask in 1u64..(1 << n) {
            v.push((0..n).filter(|i| mask & (1 << i) != 0).collect());
        }
        return v;
    }
    for i in 0..n {
        v.push(vec![i]);
    }
    v.push((0..n).collect());
    v.push((0..n).step_by(2).collect());
    v.push((1..n).step_by(2).collect());
    let pair_limit = tier.pick(24u64, 80);
    if n <= pair_limit {
        for i in 0..n {
            for j in i + 1..n {
                v.push(vec![i, j]);
            }
        }
    } else {
        // pairs of neighbours and of points at distance two
        for i in 0..n.saturating_sub(1) {
            v.push(vec![i, i + 1]);
            if i + 2 < n {
                v.push(vec![i, i + 2]);
            }
        }
    }
    if tier == Tier::Thorough && n <= 28 {
        for i in 0..n {
            for j in i + 1..n {
                for k in j + 1..n {
                    v.push(vec![i, j, k]);
                }
            }
        }
    }
    v
}

fn check_program(name: &str, m: &Module, tier: Tier, out: &mut ChunkResult, only: Option<Vec<u64>>) -> Vec<Violation> {
    let mut vs: Vec<Violation> = Vec::new();
    let (co, prog) = realrun::compile_real(m);
    let (CompileOutcome::Ok, Some(prog)) = (co, prog) else { return vs };
    let base = run_sched(m, &prog, Rc::new(|_| false));
    if std::env::var("CVX_C02_SHOW").is_ok() {
        eprintln!("C02SHOW {name}: allocs {} result {} log {:?} globals {:?}", base.allocs, base.result, base.log, base.globals);
    }
    if base.panic.is_some() || base.allocs < 2 {
        out.count("programs_skipped_few_allocations", 1);
        return vs;
    }
    let n = base.allocs;
    let scheds = match only {
        Some(s) => vec![s],
        None => schedules(n, tier),
    };
    let mut seen_keys: BTreeSet<String> = BTreeSet::new();
    for sched in scheds {
        cvx_core::engine::trace_case(|| json!({"program": name, "schedule": sched}));
        out.evaluations += 1;
        out.traces += 1;
        let set: BTreeSet<u64> = sched.iter().copied().collect();
        let r = run_sched(m, &prog, Rc::new(move |seq| set.contains(&seq)));
        out.transitions += r.allocs;
        let case = json!({"program": name, "module": m, "schedule": sched});
        let mut report = |k: String, w: String, vs: &mut Vec<Violation>| {
            if seen_keys.insert(k.clone()) {
                vs.push(Violation::new("C02", k, format!("{name}, collections forced at allocation(s) {sched:?} of {n}: {w}"), case.clone()));
            }
        };
        if let Some(p) = &r.panic {
            let class: String = p.chars().filter(|c| !c.is_ascii_digit()).take(40).collect();
            report(format!("panic:{class}"), format!("panic: {p}"), &mut vs);
            continue;
        }
        for (k, w) in r.findings.iter() {
            report(k.clone(), w.clone(), &mut vs);
        }
        if r.findings.is_empty() && (r.result != base.result || r.globals != base.globals || r.log != base.log) {
            let what = if r.result != base.result {
                format!("result {} instead of {}", r.result, base.result)
            } else if r.log != base.log {
                let i = r.log.iter().zip(base.log.iter()).position(|(a, b)| a != b).unwrap_or(0);
                format!("host call #{i}: {:?} instead of {:?}", r.log.get(i), base.log.get(i))
            } else {
                let d = base.globals.iter().find(|(k, v)| r.globals.get(*k) != Some(v)).map(|(k, v)| format!("global {k}: {:?} instead of {v}", r.globals.get(k))).unwrap_or_default();
                d
            };
            report(format!("differential:{name}"), format!("the outcome differs from the run without collections although no audit fired: {what}"), &mut vs);
        }
        out.outcome(format!("{}{}", r.result, if r.findings.is_empty() { "" } else { " +finding" }));
    }
    if vs.is_empty() {
        out.states += 1;
        out.nontrivial += 1;
        out.sample(|| json!({"program": name, "allocation_points": n}));
    }
    vs
}

// ---- check ------------------------------------------------------------------------------------------

static QUICK: OnceLock<Vec<(Box<dyn Family>, u64)>> = OnceLock::new();
static THOROUGH: OnceLock<Vec<(Box<dyn Family>, u64)>> = OnceLock::new();

/// (family, number of leading cases taken)
fn families(tier: Tier) -> &'static Vec<(Box<dyn Family>, u64)> {
    use cvx_core::gen_closure::{FClosure, FClosureNest, FClosureOrder};
    use cvx_core::gen_reenter::FReenter;
    use cvx_core::gen_stdlib::FStdlib;
    use cvx_core::gen_table::FTable;
    fn all(f: Box<dyn Family>) -> (Box<dyn Family>, u64) {
        let n = f.len();
        (f, n)
    }
    fn first(f: Box<dyn Family>, n: u64) -> (Box<dyn Family>, u64) {
        let n = n.min(f.len());
        (f, n)
    }
    match tier {
        Tier::Quick => QUICK.get_or_init(|| {
            vec![
                all(Box::new(FStmt::new(1))),
                all(Box::new(FCall)),
                first(Box::new(FClosureNest), 300),
                first(Box::new(FClosureOrder), 300),
                first(Box::new(FClosure), 600),
                all(Box::new(FTable { len_ops: 1, contexts: 3 })),
                first(Box::new(FStdlib { max_entries: 2 }), 600),
                first(Box::new(FReenter), 300),
            ]
        }),
        Tier::Thorough => THOROUGH.get_or_init(|| {
            vec![
                all(Box::new(FStmt::new(1))),
                all(Box::new(FCall)),
                all(Box::new(FClosureNest)),
                all(Box::new(FClosureOrder)),
                all(Box::new(FClosure)),
                all(Box::new(FTable { len_ops: 1, contexts: 3 })),
                all(Box::new(FTable { len_ops: 2, contexts: 3 })),
                all(Box::new(FStdlib { max_entries: 2 })),
                all(Box::new(FReenter)),
                first(Box::new(FStmt::new(2)), 200_000),
            ]
        }),
    }
}

fn family_cases(tier: Tier) -> u64 {
    families(tier).iter().map(|f| f.1).sum()
}

const FCHUNK: u64 = 50;

impl Check for C02 {
    fn id(&self) -> &'static str {
        "C02"
    }
    fn info(&self, tier: Tier) -> CheckInfo {
        CheckInfo {
            rule: format!("{} templates, one per allocating site and operand shape (string / table literals, statement-bound Array, SetProperty and AppendTable with fresh key and/or value at 0, 4, 5, 6 existing entries = around the growth step, dotted property writes, temporary tables, Get rows of variables and temporaries, PopTable, ForEach over variables and temporaries, function / native / closure values, static calls with fresh arguments, closures with open and closed upvalues, nested closures, per-iteration closures, a closure referenced only by its frame, natives that allocate or receive fresh objects, std.min/max/sorted/to_array and the _by_key variants with allocating key functions, std.filter/map/any with allocating callbacks, host re-entry with fresh arguments and closures) plus the programs of {} that make at least 2 allocations. For each program with n allocation requests: every non-empty subset of allocation points if n <= {}, otherwise every single point, every pair (n <= {}; neighbours otherwise), all points, the even and the odd points{}. At the chosen points a collection is forced where the natural trigger would run it (natural trigger off), the collector quarantines and poisons instead of releasing. Verdicts per execution: heap audit after every instruction during which a collection ran and at the end (nothing reachable from value stack, globals, frame closures, open-upvalue list, guarded objects is swept), operand audit (a top-four operand at dispatch that is swept at completion), differential outcome against the run without collections, release of everything at clear. 'states' = programs for which every schedule held", templates().len(), families(tier).iter().map(|(f, n)| if *n == f.len() { format!("{} (all {n})", f.name()) } else { format!("{} (first {n} of {})", f.name(), f.len()) }).collect::<Vec<_>>().join(", "), tier.pick(8, 12), tier.pick(24, 80), if tier == Tier::Thorough { ", every triple for n <= 28" } else { "" }),
            bound: "schedule sets as described (deviation bound: 2 collections per run, 3 in thorough; exhaustive 2^n for small n)".into(),
            exhaustive: true,
            assumptions: vec![
                "memory safety is observed through the deterministic stand-in (quarantine + poison): a swept object is never released during the run, so every later use is defined and visible".into(),
                "collections only start inside allocation requests (that is the only place the implementation starts them)".into(),
            ],
            explanation: "the schedule is injected through the verif-hooks force_gc callback of the real allocator; everything else is the unmodified interpreter".into(),
        }
    }
    fn units(&self, tier: Tier) -> u64 {
        templates().len() as u64 + family_cases(tier).div_ceil(FCHUNK)
    }
    fn unit_timeout_s(&self, tier: Tier) -> u64 {
        tier.pick(50, 900)
    }
    fn run_unit(&self, tier: Tier, unit: u64, out: &mut ChunkResult) {
        let ts = templates();
        if (unit as usize) < ts.len() {
            let (name, m) = &ts[unit as usize];
            for v in check_program(name, m, tier, out, None) {
                out.violation(v);
            }
            return;
        }
        let lo = (unit - ts.len() as u64) * FCHUNK;
        let hi = (lo + FCHUNK).min(family_cases(tier));
        for idx in lo..hi {
            let mut i = idx;
            for (f, n) in families(tier).iter() {
                if i < *n {
                    let m = f.case(i);
                    let name = format!("{}#{}", f.name(), i);
                    for v in check_program(&name, &m, tier, out, None) {
                        out.violation(v);
                    }
                    break;
                }
                i -= *n;
            }
        }
    }
    fn replay(&self, case: &J) -> Option<Violation> {
        let m: Module = serde_json::from_value(case["module"].clone()).ok()?;
        let name = case["program"].as_str()?;
        let sched: Vec<u64> = serde_json::from_value(case["schedule"].clone()).ok()?;
        let mut out = ChunkResult::default();
        check_program(name, &m, Tier::Quick, &mut out, Some(sched)).into_iter().next()
    }
}

#[allow(dead_code)]
fn _u(_: ir::Module) {}
