//! C13 — HandleTable is a faithful map on non-zero handles.
//!
//! Explicit-state BFS over operation histories of the real table for every requested initial
//! capacity, compared with a BTreeMap model after every step; drop ledger for the values; straight
//! lines of 40 insertions through each insertion path; every call under the worker watchdog.

use cao_lang::collections::handle_table::{Handle, HandleTable};
use cao_lang::verif::{AllocProxy, CaoLangAllocator, SysAllocator};
use cvx_core::engine::{Check, CheckInfo, ChunkResult, Tier, Violation};
use cvx_core::hist::{self, BfsCfg, Diverge, HistSystem};
use serde::{Deserialize, Serialize};
use serde_json::{json, Value as J};
use std::cell::RefCell;
use std::collections::BTreeMap;
use std::rc::Rc;

pub struct C13;

fn fib(h: u32) -> usize {
    h.wrapping_mul(2654435769) as usize
}

/// u32 seeds whose handles (through the crate's own `Handle::from_u32`) have the wanted home
/// buckets `(h * 2654435769) & mask`:
///  0..3: low five bits all ones: the last bucket under the masks 3, 7, 15 and 31 (chains wrap);
///  4,5:  low five bits zero: bucket 0 under every mask (collide with the wrapped chain);
///  6,7:  ordinary.
pub fn seeds() -> Vec<u32> {
    let mut last = Vec::new();
    let mut first = Vec::new();
    let mut other = Vec::new();
    let mut n = 1u32;
    while (last.len() < 4 || first.len() < 2 || other.len() < 2) && n < 5_000_000 {
        let x = fib(Handle::from_u32(n).value());
        if x & 31 == 31 {
            if last.len() < 4 {
                last.push(n);
            }
        } else if x & 31 == 0 {
            if first.len() < 2 {
                first.push(n);
            }
        } else if other.len() < 2 && x & 31 != 30 {
            other.push(n);
        }
        n += 1;
    }
    let mut s = last;
    s.extend(first);
    s.extend(other);
    s
}

type Ledger = Rc<RefCell<Vec<u32>>>;

pub struct TV {
    v: u8,
    id: usize,
    ledger: *const RefCell<Vec<u32>>,
}
impl Drop for TV {
    fn drop(&mut self) {
        unsafe { (*self.ledger).borrow_mut()[self.id] += 1 }
    }
}
impl Clone for TV {
    fn clone(&self) -> Self {
        let id = unsafe {
            let mut l = (*self.ledger).borrow_mut();
            l.push(0);
            l.len() - 1
        };
        TV { v: self.v, id, ledger: self.ledger }
    }
}

#[derive(Clone, Debug, Serialize, Deserialize)]
pub enum Op {
    Insert(usize, u8),
    Remove(usize),
    Entry(usize, u8),
    GetMutSet(usize, u8),
    Reserve(usize),
    Clear,
    CloneSwap,
}

#[derive(Clone, Copy, Debug, PartialEq, Eq)]
enum AllocKind {
    Sys,
    Proxy,
}

enum Table {
    Sys(HandleTable<TV, SysAllocator>),
    Proxy(HandleTable<TV, AllocProxy>),
}

macro_rules! with {
    ($t:expr, $x:ident => $e:expr) => {
        match $t {
            Table::Sys($x) => $e,
            Table::Proxy($x) => $e,
        }
    };
}

struct Sys {
    seeds: Vec<u32>,
    alloc: AllocKind,
    /// None = `HandleTable::default()`
    init_cap: Option<usize>,
}

struct Inst {
    real: Option<Table>,
    model: BTreeMap<u32, (u8, usize)>,
    ledger: Ledger,
}

fn dv(key: &str, what: String) -> Diverge {
    (key.to_string(), what)
}

impl Inst {
    fn tv(&self, v: u8) -> TV {
        let id = {
            let mut l = self.ledger.borrow_mut();
            l.push(0);
            l.len() - 1
        };
        TV { v, id, ledger: Rc::as_ptr(&self.ledger) }
    }
    fn no_double_drop(&self) -> Result<(), Diverge> {
        for (id, d) in self.ledger.borrow().iter().enumerate() {
            if *d > 1 {
                return Err(dv("drop/double", format!("value object #{id} dropped {d} times")));
            }
        }
        Ok(())
    }
}

impl Sys {
    fn handle(&self, i: usize) -> Handle {
        Handle::from_u32(self.seeds[i])
    }

    fn observe(&self, inst: &Inst, when: &str) -> Result<(), Diverge> {
        let m = &inst.model;
        let t = inst.real.as_ref().unwrap();
        let (len, empty) = with!(t, x => (x.len(), x.is_empty()));
        if len != m.len() || empty != m.is_empty() {
            return Err(dv("len", format!("{when}: len() = {len}, model {}", m.len())));
        }
        for i in 0..self.seeds.len() {
            let h = self.handle(i);
            let exp = m.get(&h.value()).copied();
            let got = with!(t, x => x.get(h).map(|v| (v.v, v.id)));
            if got != exp {
                return Err(dv(
                    if exp.is_some() { "get/lost-entry" } else { "get/phantom-entry" },
                    format!("{when}: get(handle#{i}) = {got:?}, model {exp:?}"),
                ));
            }
            let c = with!(t, x => x.contains(h));
            if c != exp.is_some() {
                return Err(dv("contains", format!("{when}: contains(handle#{i}) = {c}, model {}", exp.is_some())));
            }
            if let (Table::Sys(x), Some(e)) = (t, exp) {
                // Index is only defined for present keys
                let v = &x[h];
                if (v.v, v.id) != e {
                    return Err(dv("index", format!("{when}: table[handle#{i}] = {:?}, model {e:?}", (v.v, v.id))));
                }
                let v = &x[self.seeds[i]];
                if (v.v, v.id) != e {
                    return Err(dv("index-u32", format!("{when}: table[u32 seed of handle#{i}] = {:?}, model {e:?}", (v.v, v.id))));
                }
            }
        }
        let mut seen = BTreeMap::new();
        let mut dup = None;
        with!(t, x => for (k, v) in x.iter() {
            if seen.insert(k.value(), (v.v, v.id)).is_some() { dup = Some(k.value()); }
        });
        if let Some(k) = dup {
            return Err(dv("iter/duplicate", format!("{when}: iter yields handle {k} twice")));
        }
        if &seen != m {
            return Err(dv("iter/contents", format!("{when}: iter yields {seen:?}, model {m:?}")));
        }
        for (_, (_, id)) in seen.iter() {
            if inst.ledger.borrow()[*id] != 0 {
                return Err(dv("iter/dropped-object", format!("{when}: iter yields an already dropped value object #{id}")));
            }
        }
        Ok(())
    }
}

impl HistSystem for Sys {
    type Op = Op;
    type Inst = Inst;

    fn fresh(&self) -> Inst {
        let real = match (self.alloc, self.init_cap) {
            (AllocKind::Sys, None) => Table::Sys(HandleTable::default()),
            (AllocKind::Sys, Some(c)) => Table::Sys(HandleTable::with_capacity(c, SysAllocator).expect("with_capacity")),
            (AllocKind::Proxy, c) => {
                let a: AllocProxy = CaoLangAllocator::new(std::ptr::null_mut(), 1 << 30).into();
                Table::Proxy(HandleTable::with_capacity(c.unwrap_or(16), a).expect("with_capacity"))
            }
        };
        Inst { real: Some(real), model: BTreeMap::new(), ledger: Rc::new(RefCell::new(Vec::new())) }
    }

    fn ops(&self, _inst: &Inst) -> Vec<Op> {
        let mut ops = Vec::new();
        for k in 0..self.seeds.len() {
            ops.push(Op::Insert(k, 1));
            ops.push(Op::Insert(k, 2));
            ops.push(Op::Remove(k));
            ops.push(Op::Entry(k, 1));
            ops.push(Op::GetMutSet(k, 2));
        }
        ops.push(Op::Reserve(0));
        ops.push(Op::Reserve(1));
        ops.push(Op::Reserve(9));
        ops.push(Op::Clear);
        ops.push(Op::CloneSwap);
        ops
    }

    fn apply(&self, inst: &mut Inst, op: &Op) -> Result<(), Diverge> {
        match op {
            Op::Insert(ki, v) => {
                let h = self.handle(*ki);
                let val = inst.tv(*v);
                let id = val.id;
                let r = with!(inst.real.as_mut().unwrap(), x => x.insert(h, val).map(|r| (r.v, r.id)));
                match r {
                    Ok(got) => {
                        if got != (*v, id) {
                            return Err(dv("insert/returned-ref", format!("insert returned a reference to {got:?}, expected the inserted value")));
                        }
                        inst.model.insert(h.value(), (*v, id));
                    }
                    Err(e) => return Err(dv("insert/error", format!("insert(handle#{ki}) failed: {e}"))),
                }
            }
            Op::Remove(ki) => {
                let h = self.handle(*ki);
                let got = with!(inst.real.as_mut().unwrap(), x => x.remove(h));
                let exp = inst.model.remove(&h.value());
                let g = got.as_ref().map(|v| (v.v, v.id));
                if g != exp {
                    if let Some(v) = got {
                        std::mem::forget(v);
                    }
                    return Err(dv("remove/result", format!("remove(handle#{ki}) returned {g:?}, model {exp:?}")));
                }
            }
            Op::Entry(ki, v) => {
                let h = self.handle(*ki);
                let newv = inst.tv(*v);
                let newid = newv.id;
                let exp = inst.model.get(&h.value()).copied();
                let mut slot = Some(newv);
                let got = with!(inst.real.as_mut().unwrap(), x => {
                    let r = x.entry(h).or_insert_with(|| slot.take().unwrap());
                    (r.v, r.id)
                });
                match exp {
                    Some(e) => {
                        if got != e {
                            return Err(dv("entry/occupied-value", format!("entry(handle#{ki}) on a present handle yielded {got:?}, model {e:?}")));
                        }
                    }
                    None => {
                        if got != (*v, newid) {
                            return Err(dv("entry/vacant-value", format!("entry(handle#{ki}).or_insert_with yielded {got:?}")));
                        }
                        inst.model.insert(h.value(), (*v, newid));
                    }
                }
                drop(slot);
            }
            Op::GetMutSet(ki, v) => {
                let h = self.handle(*ki);
                let newv = inst.tv(*v);
                let newid = newv.id;
                let exp = inst.model.get(&h.value()).copied();
                let mut newv = Some(newv);
                let got = with!(inst.real.as_mut().unwrap(), x => x.get_mut(h).map(|r| {
                    let old = (r.v, r.id);
                    *r = newv.take().unwrap();
                    old
                }));
                if got != exp {
                    return Err(dv("get_mut/value", format!("get_mut(handle#{ki}) yielded {got:?}, model {exp:?}")));
                }
                if exp.is_some() {
                    inst.model.insert(h.value(), (*v, newid));
                }
            }
            Op::Reserve(n) => {
                if let Err(e) = with!(inst.real.as_mut().unwrap(), x => x.reserve(*n)) {
                    return Err(dv("reserve/error", format!("reserve({n}) failed: {e}")));
                }
            }
            Op::Clear => {
                with!(inst.real.as_mut().unwrap(), x => x.clear());
                inst.model.clear();
            }
            Op::CloneSwap => {
                let c = match inst.real.as_ref().unwrap() {
                    Table::Sys(x) => Table::Sys(x.clone()),
                    Table::Proxy(x) => Table::Proxy(x.clone()),
                };
                let mut cm = BTreeMap::new();
                with!(&c, x => for (k, v) in x.iter() { cm.insert(k.value(), (v.v, v.id)); });
                let want: BTreeMap<u32, u8> = inst.model.iter().map(|(k, v)| (*k, v.0)).collect();
                let have: BTreeMap<u32, u8> = cm.iter().map(|(k, v)| (*k, v.0)).collect();
                if want != have {
                    return Err(dv("clone/contents", format!("clone holds {have:?}, original model {want:?}")));
                }
                self.observe(inst, "original-after-clone")?;
                let old = inst.real.replace(c);
                drop(old);
                inst.model = cm;
            }
        }
        inst.no_double_drop()
    }

    fn invariants(&self, inst: &mut Inst) -> Result<(), Diverge> {
        self.observe(inst, "state")?;
        // iter_mut and IndexMut
        let m = inst.model.clone();
        let mut seen = BTreeMap::new();
        with!(inst.real.as_mut().unwrap(), x => for (k, v) in x.iter_mut() { seen.insert(k.value(), (v.v, v.id)); });
        if seen != m {
            return Err(dv("iter_mut/contents", format!("iter_mut yields {seen:?}, model {m:?}")));
        }
        Ok(())
    }

    fn canon(&self, inst: &Inst) -> Vec<u8> {
        let t = inst.real.as_ref().unwrap();
        let mut s = with!(t, x => format!("c{} n{} |", x.capacity(), x.len()));
        with!(t, x => for slot in x.verif_raw_slots() {
            match slot {
                None => s.push_str(" _"),
                Some((h, v)) => s.push_str(&format!(" {h}={}", v.v)),
            }
        });
        s.into_bytes()
    }

    fn finish(&self, mut inst: Inst) -> Result<(), Diverge> {
        drop(inst.real.take());
        for (id, d) in inst.ledger.borrow().iter().enumerate() {
            if *d != 1 {
                return Err(dv(
                    if *d == 0 { "drop/leak" } else { "drop/double" },
                    format!("after dropping the table: value object #{id} was dropped {d} times"),
                ));
            }
        }
        Ok(())
    }

    fn nontrivial(&self, inst: &Inst) -> bool {
        let t = inst.real.as_ref().unwrap();
        with!(t, x => {
            let cap = x.capacity();
            cap.is_power_of_two() && x.verif_raw_slots().iter().enumerate().any(|(i, s)| matches!(s, Some((h, _)) if fib(*h) & (cap - 1) != i))
        })
    }

    fn op_kind(&self, op: &Op) -> String {
        match op {
            Op::Insert(..) => "insert",
            Op::Remove(_) => "remove",
            Op::Entry(..) => "entry",
            Op::GetMutSet(..) => "get_mut",
            Op::Reserve(_) => "reserve",
            Op::Clear => "clear",
            Op::CloneSwap => "clone",
        }
        .to_string()
    }

    fn outcome(&self, inst: &Inst) -> String {
        let t = inst.real.as_ref().unwrap();
        with!(t, x => format!("cap{} len{}", x.capacity(), inst.model.len()))
    }
}

// ------------------------------------------------------------------------------------------------

#[derive(Clone, Debug)]
enum Unit {
    Bfs { alloc: AllocKind, init_cap: Option<usize>, depth: usize },
    /// straight line of `n` insertions of distinct handles through one insertion path
    Line { path: &'static str, init_cap: Option<usize>, n: usize },
    /// every history up to a depth on a table of plain values
    Plain { depth: u32 },
    /// collision-free fill of a table
    Perfect { cap: usize },
}

fn units(tier: Tier) -> Vec<Unit> {
    let mut u = Vec::new();
    let d_small = tier.pick(5, 7);
    let d = tier.pick(6, 8);
    for c in [0usize, 1, 2, 3, 5, 6, 7] {
        u.push(Unit::Bfs { alloc: AllocKind::Sys, init_cap: Some(c), depth: d_small });
    }
    for c in [4usize, 8, 16] {
        u.push(Unit::Bfs { alloc: AllocKind::Sys, init_cap: Some(c), depth: d });
    }
    u.push(Unit::Bfs { alloc: AllocKind::Sys, init_cap: None, depth: d_small });
    u.push(Unit::Bfs { alloc: AllocKind::Proxy, init_cap: Some(4), depth: d });
    u.push(Unit::Bfs { alloc: AllocKind::Proxy, init_cap: Some(0), depth: d_small });
    for path in ["insert", "entry", "mixed"] {
        for c in [None, Some(0usize), Some(1), Some(3), Some(4), Some(16)] {
            u.push(Unit::Line { path, init_cap: c, n: tier.pick(40, 200) });
        }
    }
    u.push(Unit::Plain { depth: tier.pick(5, 6) });
    for cap in [4usize, 8, 16, 64, 256] {
        u.push(Unit::Perfect { cap });
    }
    u
}

/// operation alphabet of the plain-value histories: op / 4 = kind, op % 4 = handle
const PLAIN_OPS: u64 = 22;

/// one history on a HandleTable<u32> (a value type without drop glue: the table takes other code
/// paths for it) against a BTreeMap
fn plain_history(hist: &[u64]) -> Result<(), Diverge> {
    let hs: Vec<Handle> = seeds().iter().take(4).map(|s| Handle::from_u32(*s)).collect();
    let mut t: HandleTable<u32> = HandleTable::with_capacity(4, SysAllocator).map_err(|e| dv("plain/with_capacity", format!("{e}")))?;
    let mut model: BTreeMap<u32, u32> = BTreeMap::new();
    {
        // the &str, &[u8] and u32 forms of Index / IndexMut name the same entries as the handles
        // made from them
        let mut probe: HandleTable<u32> = HandleTable::default();
        let hs_: Handle = std::str::FromStr::from_str("name").unwrap();
        let hu = Handle::from_u32(77);
        probe.insert(hs_, 1).map_err(|e| dv("plain/insert-error", format!("{e}")))?;
        probe.insert(hu, 2).map_err(|e| dv("plain/insert-error", format!("{e}")))?;
        probe["name"] += 10;
        probe[&b"name"[..]] += 100;
        probe[77u32] += 1000;
        if probe.get(hs_).copied() != Some(111) || probe["name"] != 111 || probe[&b"name"[..]] != 111 || probe.get(hu).copied() != Some(1002) || probe[77u32] != 1002 || probe.len() != 2 {
            return Err(dv("plain/index-forms", format!("&str / &[u8] / u32 indexing: entries read {:?} / {:?}", probe.get(hs_), probe.get(hu))));
        }
    }
    for (step, op) in hist.iter().enumerate() {
        let h = hs[(*op % 4) as usize];
        let val = 10 + step as u32;
        match *op / 4 {
            0 => {
                t.insert(h, val).map_err(|e| dv("plain/insert-error", format!("{e}")))?;
                model.insert(h.value(), val);
            }
            1 => {
                let got = t.remove(h);
                let want = model.remove(&h.value());
                if got != want {
                    return Err(dv("plain/remove-value", format!("history {hist:?} step {step}: remove returned {got:?}, model {want:?}")));
                }
            }
            2 => {
                let got = *t.entry(h).or_insert_with(|| val);
                let want = *model.entry(h.value()).or_insert(val);
                if got != want {
                    return Err(dv("plain/entry-value", format!("history {hist:?} step {step}: entry yielded {got}, model {want}")));
                }
            }
            3 => {
                if let Some(v) = t.get_mut(h) {
                    *v = val;
                }
                if let Some(v) = model.get_mut(&h.value()) {
                    *v = val;
                }
            }
            4 => match *op % 4 {
                0 => {
                    t.clear();
                    model.clear();
                }
                1 => {
                    t.reserve(9).map_err(|e| dv("plain/reserve-error", format!("{e}")))?;
                }
                2 => {
                    let c = t.clone();
                    t = c;
                }
                _ => {
                    let c = t.clone();
                    drop(c);
                }
            },
            _ => {
                // only two codes left in this kind: clear followed by an insertion, and a no-op
                if *op % 4 == 0 {
                    t.clear();
                    model.clear();
                    t.insert(h, val).map_err(|e| dv("plain/insert-error", format!("{e}")))?;
                    model.insert(h.value(), val);
                }
            }
        }
        if t.len() != model.len() {
            return Err(dv("plain/len", format!("history {hist:?} step {step}: len() = {}, model {}", t.len(), model.len())));
        }
        // every indexing form agrees with get (Index panics for an absent handle: present ones only)
        for h in hs.iter() {
            if let Some(want) = model.get(&h.value()).copied() {
                if t[*h] != want {
                    return Err(dv("plain/index", format!("history {hist:?} step {step}: table[handle {}] = {}, model {want}", h.value(), t[*h])));
                }
                let mut c = t.clone();
                c[*h] = want + 1;
                if c.get(*h).copied() != Some(want + 1) || t.get(*h).copied() != Some(want) {
                    return Err(dv("plain/index-mut", format!("history {hist:?} step {step}: assignment through IndexMut on a clone is not visible there / leaks into the original")));
                }
            }
        }
        for h in hs.iter() {
            if t.get(*h).copied() != model.get(&h.value()).copied() {
                return Err(dv("plain/get", format!("history {hist:?} step {step}: get({}) = {:?}, model {:?}", h.value(), t.get(*h), model.get(&h.value()))));
            }
        }
        let mut it: Vec<(u32, u32)> = t.iter().map(|(h, v)| (h.value(), *v)).collect();
        it.sort();
        let want: Vec<(u32, u32)> = model.iter().map(|(k, v)| (*k, *v)).collect();
        if it != want {
            return Err(dv("plain/iter", format!("history {hist:?} step {step}: iter yields {it:?}, model {want:?}")));
        }
    }
    Ok(())
}

fn plain_decode(code: u64, depth: u32) -> Vec<u64> {
    let mut c = code;
    (0..depth)
        .map(|_| {
            let o = c % PLAIN_OPS;
            c /= PLAIN_OPS;
            o
        })
        .collect()
}

fn cfg(alloc: AllocKind, init_cap: Option<usize>, depth: usize, budget_s: u64) -> BfsCfg<'static> {
    BfsCfg {
        property: "C13",
        case_base: json!({"kind": "bfs", "alloc": format!("{alloc:?}"), "init_cap": init_cap, "seeds": seeds()}),
        max_depth: depth,
        max_states: 4_000_000,
        threads: 3,
        deadline: Some(std::time::Instant::now() + std::time::Duration::from_secs(budget_s)),
    }
}

/// n distinct handles inserted one after the other; after every insertion every handle inserted
/// so far must be retrievable with its value and `len` must be right.
fn line(path: &str, init_cap: Option<usize>, n: usize, upto: Option<usize>) -> Result<(), Diverge> {
    let mut t: HandleTable<u32> = match init_cap {
        None => HandleTable::default(),
        Some(c) => HandleTable::with_capacity(c, SysAllocator).map_err(|e| dv("line/with_capacity", format!("{e}")))?,
    };
    let n = upto.unwrap_or(n);
    for i in 0..n {
        cvx_core::engine::trace_case(|| json!({"kind": "line", "path": path, "init_cap": init_cap, "upto": i + 1}));
        let h = Handle::from_u32(1000 + i as u32);
        let use_entry = match path {
            "insert" => false,
            "entry" => true,
            _ => i % 2 == 1,
        };
        if use_entry {
            let v = *t.entry(h).or_insert_with(|| i as u32);
            if v != i as u32 {
                return Err(dv("line/entry-value", format!("{path}: entry #{i} yielded {v}")));
            }
        } else {
            t.insert(h, i as u32).map_err(|e| dv("line/insert-error", format!("{path}: insert #{i} failed: {e}")))?;
        }
        if t.len() != i + 1 {
            return Err(dv("line/len", format!("{path}: len() = {} after {} insertions", t.len(), i + 1)));
        }
        for j in 0..=i {
            let hj = Handle::from_u32(1000 + j as u32);
            if t.get(hj).copied() != Some(j as u32) {
                return Err(dv("line/lost-entry", format!("{path}: after {} insertions (initial capacity {init_cap:?}) handle #{j} reads {:?}", i + 1, t.get(hj))));
            }
        }
        if t.get(Handle::from_u32(999_999)).is_some() {
            return Err(dv("line/phantom", format!("{path}: absent handle found after {} insertions", i + 1)));
        }
    }
    Ok(())
}

/// Handles with pairwise distinct home buckets, inserted into a table of that many buckets: no
/// insertion collides, so a table that only grows on collisions would fill up completely. After
/// every insertion an absent handle is looked up (a full table never stops probing: the unit
/// watchdog reports the hang) and at least one bucket must be empty.
fn perfect_fill(cap: usize) -> Result<(), Diverge> {
    let home = |h: Handle| -> Option<usize> {
        let mut t: HandleTable<u32> = HandleTable::with_capacity(cap, SysAllocator).ok()?;
        t.insert(h, 0).ok()?;
        t.verif_raw_slots().iter().position(|s| s.is_some())
    };
    let buckets = {
        let t: HandleTable<u32> = HandleTable::with_capacity(cap, SysAllocator).map_err(|e| dv("perfect/with_capacity", format!("{e}")))?;
        t.verif_raw_slots().len()
    };
    let mut chosen: Vec<Handle> = Vec::new();
    let mut taken = vec![false; buckets];
    let mut n = 1u32;
    while chosen.len() < buckets && n < 1_000_000 {
        let h = Handle::from_u32(n);
        if let Some(b) = home(h) {
            if !taken[b] {
                taken[b] = true;
                chosen.push(h);
            }
        }
        n += 1;
    }
    let mut t: HandleTable<u32> = HandleTable::with_capacity(cap, SysAllocator).map_err(|e| dv("perfect/with_capacity", format!("{e}")))?;
    for (i, h) in chosen.iter().enumerate() {
        cvx_core::engine::trace_case(|| json!({"kind": "perfect", "cap": cap, "upto": i + 1}));
        t.insert(*h, i as u32).map_err(|e| dv("perfect/insert-error", format!("{e}")))?;
        if !t.verif_raw_slots().iter().any(|s| s.is_none()) {
            return Err(dv("perfect/table-full", format!("initial capacity {cap}: after {} insertions without a single collision every bucket is occupied: the next lookup of an absent handle cannot terminate", i + 1)));
        }
        if t.get(Handle::from_u32(3_999_999)).is_some() || t.contains(Handle::from_u32(3_999_998)) {
            return Err(dv("perfect/phantom", "an absent handle is found".to_string()));
        }
        for (j, hj) in chosen.iter().take(i + 1).enumerate() {
            if t.get(*hj).copied() != Some(j as u32) {
                return Err(dv("perfect/lost-entry", format!("initial capacity {cap}: handle #{j} lost after {} insertions", i + 1)));
            }
        }
    }
    Ok(())
}

impl Check for C13 {
    fn id(&self) -> &'static str {
        "C13"
    }

    fn info(&self, tier: Tier) -> CheckInfo {
        CheckInfo {
            rule: "explicit-state BFS over histories of insert/remove/entry().or_insert_with/get_mut-assign/reserve(0|1|9)/clear/clone-and-continue on the real HandleTable<tracked value> for every requested initial capacity in {0,1,2,3,4,5,6,7,8,16,default} and both allocators; 8 handles chosen through the crate's own Handle::from_u32 so that 4 share the last bucket under masks 3..31 (wrapping chains), 2 share bucket 0; after every step get/contains/Index(handle, u32)/len/is_empty/iter/iter_mut for every handle compared with a BTreeMap model; value drop ledger; plus straight lines of insertions of distinct handles through insert / entry / alternating, all entries re-read after every insertion; plus every history of a 22-operation alphabet (insert / remove / entry / get_mut-assign on 4 colliding handles, clear, reserve, replace-by-clone, clone-and-drop, clear-then-insert) up to depth 5 (thorough 6) on HandleTable<u32> (a value type without drop glue, for which the table takes other code paths) against a BTreeMap; plus collision-free fills: as many handles with pairwise distinct home buckets as the table has buckets (initial capacities 4, 8, 16, 64, 256), after every insertion an empty bucket remains and an absent handle is not found. Canonical state = capacity, count, every bucket in storage order. Non-trivial = state with a handle displaced from its home bucket".into(),
            bound: format!("history depth {} (capacities 4,8,16) / {} (others); lines of {} insertions", tier.pick(6, 8), tier.pick(5, 7), tier.pick(40, 200)),
            exhaustive: true,
            assumptions: vec![
                "allocation failure is not injected here (the property statement does not cover it for this table)".into(),
                "handles are produced by Handle::from_u32; the value 0 is rejected by insert and is outside the property".into(),
            ],
            explanation: "every transition is an operation of the real table; BTreeMap is only the oracle; hangs are detected by the supervisor's per-unit watchdog and pinned by a traced re-run".into(),
        }
    }

    fn units(&self, tier: Tier) -> u64 {
        units(tier).len() as u64
    }

    fn unit_timeout_s(&self, tier: Tier) -> u64 {
        tier.pick(40, 900)
    }

    fn run_unit(&self, tier: Tier, unit: u64, out: &mut ChunkResult) {
        match units(tier)[unit as usize].clone() {
            Unit::Bfs { alloc, init_cap, depth } => {
                let sys = Sys { seeds: seeds(), alloc, init_cap };
                hist::bfs(&sys, &cfg(alloc, init_cap, depth, tier.pick(25, 600)), out);
            }
            Unit::Plain { depth } => {
                let total = PLAIN_OPS.pow(depth);
                for code in 0..total {
                    let h = plain_decode(code, depth);
                    out.evaluations += 1;
                    out.traces += 1;
                    out.transitions += depth as u64;
                    if code % 4096 == 0 {
                        cvx_core::engine::trace_case(|| json!({"kind": "plain", "history": h}));
                    }
                    if let Err(d) = hist::guarded(|| plain_history(&h), "plain") {
                        out.violation(Violation::new("C13", d.0, d.1, json!({"kind": "plain", "history": h})));
                        break;
                    }
                }
                out.nontrivial += 1;
                out.states += 1;
                out.outcome("plain-value histories".to_string());
            }
            Unit::Perfect { cap } => {
                out.evaluations += 1;
                out.traces += 1;
                match hist::guarded(|| perfect_fill(cap), "perfect") {
                    Ok(()) => {
                        out.nontrivial += 1;
                        out.states += 1;
                        out.outcome("collision-free fill ok".to_string());
                    }
                    Err(d) => out.violation(Violation::new("C13", d.0, d.1, json!({"kind": "perfect", "cap": cap}))),
                }
            }
            Unit::Line { path, init_cap, n } => {
                out.evaluations += 1;
                out.traces += 1;
                out.transitions += n as u64;
                let r = hist::guarded(|| line(path, init_cap, n, None), "line");
                match r {
                    Ok(()) => {
                        out.nontrivial += 1;
                        out.outcome(format!("line-{path}-ok"));
                    }
                    Err(d) => out.violation(Violation::new("C13", d.0, d.1, json!({"kind": "line", "path": path, "init_cap": init_cap, "upto": n}))),
                }
            }
        }
    }

    fn replay(&self, case: &J) -> Option<Violation> {
        let init_cap = case["init_cap"].as_u64().map(|c| c as usize);
        if case["kind"].as_str() == Some("perfect") {
            let cap = case["cap"].as_u64()? as usize;
            return match hist::guarded(|| perfect_fill(cap), "perfect") {
                Ok(()) => None,
                Err(d) => Some(Violation::new("C13", d.0, d.1, case.clone())),
            };
        }
        if case["kind"].as_str() == Some("plain") {
            let h: Vec<u64> = serde_json::from_value(case["history"].clone()).ok()?;
            return match hist::guarded(|| plain_history(&h), "plain") {
                Ok(()) => None,
                Err(d) => Some(Violation::new("C13", d.0, d.1, case.clone())),
            };
        }
        if case["kind"].as_str() == Some("line") {
            let path: &'static str = match case["path"].as_str()? {
                "insert" => "insert",
                "entry" => "entry",
                _ => "mixed",
            };
            let upto = case["upto"].as_u64()? as usize;
            return match hist::guarded(|| line(path, init_cap, upto, Some(upto)), "line") {
                Ok(()) => None,
                Err(d) => Some(Violation::new("C13", d.0, d.1, case.clone())),
            };
        }
        let h: Vec<Op> = serde_json::from_value(case["history"].clone()).ok()?;
        let alloc = if case["alloc"].as_str()? == "Sys" { AllocKind::Sys } else { AllocKind::Proxy };
        let sys = Sys { seeds: seeds(), alloc, init_cap };
        hist::replay(&sys, &cfg(alloc, init_cap, 64, 3600), &h)
    }
}
