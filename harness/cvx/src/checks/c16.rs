//! C16 — the module editing API is index-consistent and atomic.
//!
//! Explicit-state BFS over edit sequences (insert / remove / replace / swap with valid and
//! invalid indices) on the real `Module`, against a plain labelled-tree model that follows the
//! documented rule "insert into a list parent, replace in a fixed slot"; after every edit the whole
//! module (serialised) must equal the model, failed edits must be no-ops, and walk / child
//! enumeration / child count / child lookup must agree for every card.

use crate::lower;
use cao_lang::compiler::{Card, CardIndex, Module as RealModule};
use cvx_core::engine::{Check, CheckInfo, ChunkResult, Tier, Violation};
use cvx_core::hist::{self, BfsCfg, Diverge, HistSystem};
use cvx_core::ir::{self, *};
use serde::{Deserialize, Serialize};
use serde_json::{json, Value as J};

pub struct C16;

type Idx = (usize, Vec<u32>);

#[derive(Clone, Debug, Serialize, Deserialize)]
pub enum Op {
    Insert(Idx),
    Remove(Idx),
    Replace(Idx),
    Swap(Idx, Idx),
}

fn new_card() -> C {
    C::Str("NEW".into())
}

fn dv(key: &str, what: String) -> Diverge {
    (key.to_string(), what)
}

// ---- the tree model --------------------------------------------------------------------------------

/// is `c`'s child list a real list (insertion shifts) for child index `i`?
fn is_list_slot(c: &C, i: usize) -> bool {
    match c {
        C::Composite(..) | C::Closure(..) | C::Call(..) | C::CallNative(..) | C::Array(_) => true,
        C::DynCall(..) => i >= 1,
        _ => false,
    }
}

fn list_of(c: &mut C) -> Option<(&mut Vec<C>, usize)> {
    // (the list, offset of the list inside the child numbering)
    match c {
        C::Composite(_, v) | C::Closure(_, v) | C::Call(_, v) | C::CallNative(_, v) | C::Array(v) => Some((v, 0)),
        C::DynCall(_, v) => Some((v, 1)),
        _ => None,
    }
}

fn m_get<'a>(m: &'a ir::Module, idx: &Idx) -> Option<&'a C> {
    let f = &m.functions.get(idx.0)?.1;
    let mut it = idx.1.iter();
    let mut c = f.cards.get(*it.next()? as usize)?;
    for i in it {
        c = c.children().get(*i as usize).copied()?;
    }
    Some(c)
}

fn m_get_mut<'a>(m: &'a mut ir::Module, idx: &Idx) -> Option<&'a mut C> {
    let f = &mut m.functions.get_mut(idx.0)?.1;
    let mut it = idx.1.iter();
    let mut c = f.cards.get_mut(*it.next()? as usize)?;
    for i in it {
        c = c.children_mut().into_iter().nth(*i as usize)?;
    }
    Some(c)
}

/// Err(()) = the edit must fail and leave the module unchanged
fn m_insert(m: &mut ir::Module, idx: &Idx, card: C) -> Result<(), ()> {
    let (last, parent) = idx.1.split_last().ok_or(())?;
    let last = *last as usize;
    if parent.is_empty() {
        let f = &mut m.functions.get_mut(idx.0).ok_or(())?.1;
        if last > f.cards.len() {
            return Err(());
        }
        f.cards.insert(last, card);
        return Ok(());
    }
    let p = m_get_mut(m, &(idx.0, parent.to_vec())).ok_or(())?;
    if is_list_slot(p, last) {
        let (list, off) = list_of(p).ok_or(())?;
        if last - off > list.len() {
            return Err(());
        }
        list.insert(last - off, card);
        Ok(())
    } else {
        // fixed slot: replace
        let ch = p.children_mut().into_iter().nth(last).ok_or(())?;
        *ch = card;
        Ok(())
    }
}

enum Removed {
    FromList(C),
    /// fixed slot: the old card; the slot now holds a placeholder chosen by the implementation
    FromSlot(C),
}

fn m_remove(m: &mut ir::Module, idx: &Idx) -> Result<Removed, ()> {
    let (last, parent) = idx.1.split_last().ok_or(())?;
    let last = *last as usize;
    if parent.is_empty() {
        let f = &mut m.functions.get_mut(idx.0).ok_or(())?.1;
        if last >= f.cards.len() {
            return Err(());
        }
        return Ok(Removed::FromList(f.cards.remove(last)));
    }
    let p = m_get_mut(m, &(idx.0, parent.to_vec())).ok_or(())?;
    if is_list_slot(p, last) {
        let (list, off) = list_of(p).ok_or(())?;
        if last - off >= list.len() {
            return Err(());
        }
        Ok(Removed::FromList(list.remove(last - off)))
    } else {
        let ch = p.children_mut().into_iter().nth(last).ok_or(())?;
        let old = std::mem::replace(ch, C::Nil);
        Ok(Removed::FromSlot(old))
    }
}

fn m_replace(m: &mut ir::Module, idx: &Idx, card: C) -> Result<C, ()> {
    if idx.1.is_empty() {
        return Err(());
    }
    let c = m_get_mut(m, idx).ok_or(())?;
    Ok(std::mem::replace(c, card))
}

fn is_prefix(a: &[u32], b: &[u32]) -> bool {
    a.len() < b.len() && b[..a.len()] == *a
}

fn m_swap(m: &mut ir::Module, a: &Idx, b: &Idx) -> Result<(), ()> {
    if m_get(m, a).is_none() || m_get(m, b).is_none() || a.1.is_empty() || b.1.is_empty() {
        return Err(());
    }
    if a.0 == b.0 && (is_prefix(&a.1, &b.1) || is_prefix(&b.1, &a.1)) {
        return Err(()); // a card and its own ancestor
    }
    if a == b {
        return Ok(());
    }
    let ca = m_get(m, a).unwrap().clone();
    let cb = m_get(m, b).unwrap().clone();
    *m_get_mut(m, a).unwrap() = cb;
    *m_get_mut(m, b).unwrap() = ca;
    Ok(())
}

fn all_indices(m: &ir::Module) -> Vec<Idx> {
    fn go(c: &C, f: usize, path: &mut Vec<u32>, out: &mut Vec<Idx>) {
        out.push((f, path.clone()));
        for (i, ch) in c.children().into_iter().enumerate() {
            path.push(i as u32);
            go(ch, f, path, out);
            path.pop();
        }
    }
    let mut out = Vec::new();
    for (fi, (_, f)) in m.functions.iter().enumerate() {
        for (ci, c) in f.cards.iter().enumerate() {
            go(c, fi, &mut vec![ci as u32], &mut out);
        }
    }
    out
}

/// valid indices plus, at every level, the index one past the end; the empty index; an unknown function
fn index_alphabet(m: &ir::Module) -> Vec<Idx> {
    let mut out = all_indices(m);
    let mut extra: Vec<Idx> = Vec::new();
    for (fi, (_, f)) in m.functions.iter().enumerate() {
        extra.push((fi, vec![f.cards.len() as u32]));
        extra.push((fi, vec![f.cards.len() as u32 + 1]));
    }
    for (f, p) in out.iter() {
        let n = m_get(m, &(*f, p.clone())).map(|c| c.children().len()).unwrap_or(0);
        let mut q = p.clone();
        q.push(n as u32);
        extra.push((*f, q.clone()));
        q.pop();
        q.push(n as u32 + 1);
        extra.push((*f, q));
    }
    extra.push((0, vec![]));
    extra.push((m.functions.len(), vec![0]));
    out.extend(extra);
    out
}

// ---- the system ------------------------------------------------------------------------------------

struct Sys {
    seed: ir::Module,
    with_swap: bool,
}

struct Inst {
    real: RealModule,
    model: ir::Module,
}

fn cidx(i: &Idx) -> CardIndex {
    CardIndex::from_slice(i.0, &i.1)
}

fn ser(m: &RealModule) -> String {
    serde_json::to_string(m).unwrap()
}

fn ser_card(c: &Card) -> String {
    serde_json::to_string(c).unwrap()
}

impl Sys {
    fn same(&self, inst: &Inst, when: &str) -> Result<(), Diverge> {
        let want = ser(&lower::module(&inst.model));
        let got = ser(&inst.real);
        if want != got {
            return Err(dv(&format!("{when}/module-differs"), format!("{when}: the module is not what the tree model says\n  real:  {}\n  model: {}", short(&got), short(&want))));
        }
        Ok(())
    }
}

fn short(s: &str) -> String {
    s.chars().take(600).collect()
}

impl HistSystem for Sys {
    type Op = Op;
    type Inst = Inst;

    fn fresh(&self) -> Inst {
        Inst { real: lower::module(&self.seed), model: self.seed.clone() }
    }

    fn ops(&self, inst: &Inst) -> Vec<Op> {
        let idx = index_alphabet(&inst.model);
        let mut ops = Vec::new();
        for i in idx.iter() {
            ops.push(Op::Insert(i.clone()));
            ops.push(Op::Remove(i.clone()));
            ops.push(Op::Replace(i.clone()));
        }
        if self.with_swap {
            for a in idx.iter() {
                for b in idx.iter() {
                    ops.push(Op::Swap(a.clone(), b.clone()));
                }
            }
        }
        ops
    }

    fn apply(&self, inst: &mut Inst, op: &Op) -> Result<(), Diverge> {
        let before = ser(&inst.real);
        match op {
            Op::Insert(i) => {
                let r = inst.real.insert_card(&cidx(i), lower::card(&new_card()));
                let mut model2 = inst.model.clone();
                let e = m_insert(&mut model2, i, new_card());
                match (r.is_ok(), e.is_ok()) {
                    (true, true) => inst.model = model2,
                    (false, false) => {}
                    (true, false) => {
                        return Err(dv("insert/accepted-invalid-index", format!("insert_card({i:?}) returned Ok for an index that addresses nothing (module {} )", if ser(&inst.real) == before { "unchanged: the card was dropped" } else { "changed" })));
                    }
                    (false, true) => return Err(dv("insert/rejected-valid-index", format!("insert_card({i:?}) failed: {:?}", r.err()))),
                }
            }
            Op::Remove(i) => {
                let r = inst.real.remove_card(&cidx(i));
                let mut model2 = inst.model.clone();
                let e = m_remove(&mut model2, i);
                match (r, e) {
                    (Ok(card), Ok(rem)) => {
                        let (old, slot) = match rem {
                            Removed::FromList(c) => (c, false),
                            Removed::FromSlot(c) => (c, true),
                        };
                        if ser_card(&card) != ser_card(&lower::card(&old)) {
                            return Err(dv("remove/returned-card", format!("remove_card({i:?}) returned {}, the card there was {}", short(&ser_card(&card)), short(&ser_card(&lower::card(&old))))));
                        }
                        if slot {
                            // the placeholder is the implementation's choice: it must be a leaf, everything else is unchanged
                            let ph = inst.real.get_card(&cidx(i)).map_err(|e| dv("remove/slot-vanished", format!("after remove_card({i:?}) from a fixed slot the slot is gone: {e}")))?;
                            if ph.num_children() != 0 {
                                return Err(dv("remove/placeholder-not-leaf", format!("remove_card({i:?}) left a non-leaf placeholder")));
                            }
                            let ph_ir = match &ph.body {
                                cao_lang::compiler::CardBody::ScalarNil => C::Nil,
                                cao_lang::compiler::CardBody::ScalarInt(n) => C::Int(*n),
                                other => return Err(dv("remove/placeholder-kind", format!("remove_card({i:?}) left placeholder {other:?}"))),
                            };
                            *m_get_mut(&mut model2, i).unwrap() = ph_ir;
                        }
                        inst.model = model2;
                    }
                    (Err(_), Err(())) => {}
                    (Ok(_), Err(())) => return Err(dv("remove/accepted-invalid-index", format!("remove_card({i:?}) returned a card for an index that addresses nothing"))),
                    (Err(e), Ok(_)) => return Err(dv("remove/rejected-valid-index", format!("remove_card({i:?}) failed: {e}"))),
                }
            }
            Op::Replace(i) => {
                let r = inst.real.replace_card(&cidx(i), lower::card(&new_card()));
                let mut model2 = inst.model.clone();
                let e = m_replace(&mut model2, i, new_card());
                match (r, e) {
                    (Ok(card), Ok(old)) => {
                        if ser_card(&card) != ser_card(&lower::card(&old)) {
                            return Err(dv("replace/returned-card", format!("replace_card({i:?}) returned the wrong old card")));
                        }
                        inst.model = model2;
                    }
                    (Err(_), Err(())) => {}
                    (Ok(_), Err(())) => return Err(dv("replace/accepted-invalid-index", format!("replace_card({i:?}) succeeded for an invalid index"))),
                    (Err(e), Ok(_)) => return Err(dv("replace/rejected-valid-index", format!("replace_card({i:?}) failed: {e}"))),
                }
            }
            Op::Swap(a, b) => {
                let r = inst.real.swap_cards(&cidx(a), &cidx(b));
                let mut model2 = inst.model.clone();
                let e = m_swap(&mut model2, a, b);
                match (r.is_ok(), e.is_ok()) {
                    (true, true) => inst.model = model2,
                    (false, false) => {}
                    (true, false) => return Err(dv("swap/accepted-invalid", format!("swap_cards({a:?}, {b:?}) succeeded although it must fail"))),
                    (false, true) => return Err(dv("swap/rejected-valid", format!("swap_cards({a:?}, {b:?}) failed: {:?}", r.err()))),
                }
            }
        }
        let kind = self.op_kind(op);
        self.same(inst, &kind)
    }

    fn invariants(&self, inst: &mut Inst) -> Result<(), Diverge> {
        // every card has exactly one index; walk reports each once with an index that maps back
        let want = all_indices(&inst.model);
        let mut seen: Vec<Idx> = Vec::new();
        let mut bad: Option<String> = None;
        let snapshot = inst.real.clone();
        inst.real.walk_cards(|id, card| {
            let i: Idx = (id.function, id.card_index.indices.iter().copied().collect());
            match snapshot.get_card(id) {
                Ok(c) => {
                    if ser_card(c) != ser_card(card) || c.id != card.id {
                        bad.get_or_insert(format!("walk reports index {i:?} for a card that get_card maps to another card"));
                    }
                }
                Err(e) => {
                    bad.get_or_insert(format!("walk reports index {i:?}, get_card fails: {e}"));
                }
            }
            seen.push(i);
        });
        if let Some(b) = bad {
            return Err(dv("walk/index-mismatch", b));
        }
        let mut s1 = seen.clone();
        s1.sort();
        let mut w1 = want.clone();
        w1.sort();
        if s1 != w1 {
            return Err(dv("walk/coverage", format!("walk_cards visited {} cards, the module has {} (first difference: {:?} vs {:?})", seen.len(), want.len(), s1.iter().find(|x| !w1.contains(x)), w1.iter().find(|x| !s1.contains(x)))));
        }
        let mut seen_mut: Vec<Idx> = Vec::new();
        inst.real.walk_cards_mut(|id, _| seen_mut.push((id.function, id.card_index.indices.iter().copied().collect())));
        if seen_mut != seen {
            return Err(dv("walk/mut-differs", "walk_cards_mut and walk_cards visit different index sequences".into()));
        }
        // child enumeration, count and lookup agree for every card
        for i in want.iter() {
            let card = inst.real.get_card(&cidx(i)).map_err(|e| dv("get/valid-index-rejected", format!("get_card({i:?}): {e}")))?;
            let n = card.num_children() as usize;
            let it: Vec<String> = card.iter_children().map(ser_card).collect();
            if it.len() != n {
                return Err(dv("children/count", format!("{} at {i:?}: num_children {n}, iter_children yields {}", card.name(), it.len())));
            }
            for k in 0..n + 2 {
                match (card.get_child(k), it.get(k)) {
                    (Some(c), Some(s)) if &ser_card(c) == s => {}
                    (None, None) => {}
                    (g, _) => return Err(dv("children/lookup", format!("{} at {i:?}: get_child({k}) = {:?} disagrees with iter_children (n = {n})", card.name(), g.map(|c| c.name().to_string())))),
                }
            }
            let mut c2 = card.clone();
            let nm = c2.iter_children_mut().count();
            if nm != n {
                return Err(dv("children/count-mut", format!("{} at {i:?}: iter_children_mut yields {nm}, num_children {n}", card.name())));
            }
            for k in 0..n + 2 {
                if c2.get_child_mut(k).is_some() != (k < n) {
                    return Err(dv("children/lookup-mut", format!("{} at {i:?}: get_child_mut({k}) with {n} children", card.name())));
                }
            }
        }
        // invalid indices are rejected by the read API
        for i in index_alphabet(&inst.model) {
            let valid = m_get(&inst.model, &i).is_some() && !i.1.is_empty();
            let r = inst.real.get_card(&cidx(&i));
            if r.is_ok() != valid {
                return Err(dv("get/validity", format!("get_card({i:?}) is {}, the index is {}", if r.is_ok() { "Ok" } else { "Err" }, if valid { "valid" } else { "invalid" })));
            }
        }
        Ok(())
    }

    fn canon(&self, inst: &Inst) -> Vec<u8> {
        ser(&inst.real).into_bytes()
    }

    fn finish(&self, _inst: Inst) -> Result<(), Diverge> {
        Ok(())
    }

    fn nontrivial(&self, inst: &Inst) -> bool {
        inst.model != self.seed
    }

    fn op_kind(&self, op: &Op) -> String {
        match op {
            Op::Insert(_) => "insert",
            Op::Remove(_) => "remove",
            Op::Replace(_) => "replace",
            Op::Swap(..) => "swap",
        }
        .to_string()
    }

    fn outcome(&self, inst: &Inst) -> String {
        format!("cards{}", inst.model.size())
    }
}

// ---- seeds -----------------------------------------------------------------------------------------

/// one instance of every card kind, children are distinguishable leaves
fn kinds() -> Vec<C> {
    let l = |i: i64| int(i);
    vec![
        bin(BinOp::Add, l(1), l(2)),
        bin(BinOp::Less, l(1), l(2)),
        C::Not(b(l(1))),
        C::Return(b(l(1))),
        C::Len(b(l(1))),
        C::PopTable(b(l(1))),
        C::SetProperty(b(l(1)), b(l(2)), b(l(3))),
        C::GetProperty(b(l(1)), b(l(2))),
        C::Get(b(l(1)), b(l(2))),
        C::Append(b(l(1)), b(l(2))),
        native("nat", vec![l(1), l(2)]),
        native("nat0", vec![]),
        call("fun", vec![l(1), l(2)]),
        C::DynCall(b(l(1)), vec![l(2), l(3)]),
        C::DynCall(b(l(1)), vec![]),
        C::IfTrue(b(l(1)), b(l(2))),
        C::IfFalse(b(l(1)), b(l(2))),
        C::IfElse(b(l(1)), b(l(2)), b(l(3))),
        C::While(b(l(1)), b(l(2))),
        C::Repeat { n: b(l(1)), i: Some("i".into()), body: b(l(2)) },
        C::ForEach { i: Some("i".into()), k: None, v: Some("v".into()), iterable: b(l(1)), body: b(l(2)) },
        sv("x", l(1)),
        sg("y", l(1)),
        C::Array(vec![l(1), l(2)]),
        C::Array(vec![]),
        C::Composite("c".into(), vec![l(1), l(2)]),
        C::Closure(vec!["p".into()], vec![l(1), l(2)]),
        // leaves
        l(9),
        C::Nil,
        s("str"),
        rv("v"),
        C::Function("f".into()),
        C::NativeFunction("n".into()),
        C::CreateTable,
        C::Abort,
        C::Comment("c".into()),
        C::Float(1.5),
    ]
}

fn seed(kind: usize) -> ir::Module {
    let k = kinds()[kind].clone();
    // K at top level, nested at depth 2 under a list parent and under a fixed-arity parent
    let mut m = module(vec![
        ("main", func(&[], vec![k.clone(), C::Composite("list".into(), vec![int(70), k.clone()]), C::IfTrue(b(int(71)), b(k))])),
        // the second function has nested cards too: the in-function path of a card of one function can
        // be a prefix of the path of a card of the other function (0.0 and 1.0.0, 0.1 and 1.1.1.0)
        ("other", func(&["a"], vec![C::Not(b(int(80))), C::Composite("o".into(), vec![int(81), C::Not(b(int(82)))]), s("tail")])),
    ]);
    // submodules with functions and cards of their own: a CardIndex addresses the functions of the
    // module the API is called on, so none of these cards has an index in the root module
    let deep = ir::Module { submodules: vec![], functions: vec![("leaf".into(), func(&[], vec![int(95), C::Not(b(int(96)))]))], imports: vec![] };
    let sub = ir::Module { submodules: vec![("deep".into(), deep)], functions: vec![("inner".into(), func(&["p"], vec![int(90), C::Composite("l".into(), vec![int(91)])])), ("inner2".into(), func(&[], vec![s("sub tail")]))], imports: vec![] };
    m.submodules.push(("sub".into(), sub));
    m
}

fn units(tier: Tier) -> Vec<(usize, usize, bool)> {
    // (kind, depth, with swap)
    let n = kinds().len();
    let mut u = Vec::new();
    for k in 0..n {
        u.push((k, 1, true));
    }
    for k in 0..n {
        u.push((k, 2, false));
    }
    if tier == Tier::Thorough {
        for k in 0..n {
            u.push((k, 2, true));
        }
    }
    u
}

fn cfg(kind: usize, depth: usize, swap: bool, budget_s: u64) -> BfsCfg<'static> {
    BfsCfg {
        property: "C16",
        case_base: json!({"kind": kind, "with_swap": swap}),
        max_depth: depth,
        max_states: 2_000_000,
        threads: 2,
        deadline: Some(std::time::Instant::now() + std::time::Duration::from_secs(budget_s)),
    }
}

impl Check for C16 {
    fn id(&self) -> &'static str {
        "C16"
    }
    fn info(&self, tier: Tier) -> CheckInfo {
        CheckInfo {
            rule: "for each of 37 card kinds K (every kind with children, both empty and non-empty list parents, every leaf kind): a 2-function module (with a submodule that has two functions and a nested submodule, all with cards of their own) with K at top level, nested under a list parent (CompositeCard) and under a fixed-arity parent (IfTrue); BFS over edit sequences insert_card / remove_card / replace_card at every valid index, at the index one and two past the end of every level, the empty index and an unknown function, and swap_cards over all ordered pairs of those (equal, ancestor/descendant, cross-function, invalid); after every edit the serialised module equals a plain tree model (insert shifts in list parents and replaces in fixed slots; removal from a fixed slot leaves a leaf placeholder; swap of a card with its ancestor or with an invalid index fails) and failed edits leave the serialisation byte-identical; in every state walk_cards / walk_cards_mut visit every card once with an index that get_card maps back to the same card (content and CardId), and num_children, iter_children(_mut), get_child(_mut)(0..n+1) agree for every card; get_card accepts exactly the valid indices. Non-trivial = state different from the seed".into(),
            bound: format!("{} searches: depth 1 with swap and depth 2 without swap for every kind{}", units(tier).len(), if tier == Tier::Thorough { ", depth 2 with swap" } else { "" }),
            exhaustive: true,
            assumptions: vec!["the placeholder left by removing a card from a fixed slot is the implementation's choice (any leaf card); the statement only fixes list parents".into(), "inserted / replacing card is always the same marker card".into()],
            explanation: "every transition is a call of the real Module editing API".into(),
        }
    }
    fn units(&self, tier: Tier) -> u64 {
        units(tier).len() as u64
    }
    fn unit_timeout_s(&self, tier: Tier) -> u64 {
        tier.pick(60, 1200)
    }
    fn run_unit(&self, tier: Tier, unit: u64, out: &mut ChunkResult) {
        let (k, depth, swap) = units(tier)[unit as usize];
        hist::bfs(&Sys { seed: seed(k), with_swap: swap }, &cfg(k, depth, swap, tier.pick(40, 900)), out);
    }
    fn replay(&self, case: &J) -> Option<Violation> {
        let h: Vec<Op> = serde_json::from_value(case["history"].clone()).ok()?;
        let k = case["kind"].as_u64()? as usize;
        let swap = case["with_swap"].as_bool().unwrap_or(true);
        hist::replay(&Sys { seed: seed(k), with_swap: swap }, &cfg(k, 64, swap, 3600), &h)
    }
}
