//! C09 — standard-library functions meet their contracts.

use crate::checks::c01::SemJudge;
use crate::progcheck;
use cvx_core::engine::{Check, CheckInfo, ChunkResult, Tier, Violation};
use cvx_core::gen_basic::Family;
use cvx_core::gen_stdlib::{FStdlib, FStdlibBigInts, FStdlibLarge, FStdlibReals};
use cvx_core::region::RegionOpts;
use serde_json::Value as J;
use std::sync::OnceLock;

pub struct C09;

static QUICK: OnceLock<Vec<Box<dyn Family>>> = OnceLock::new();
static THOROUGH: OnceLock<Vec<Box<dyn Family>>> = OnceLock::new();

pub fn families(tier: Tier) -> &'static Vec<Box<dyn Family>> {
    match tier {
        Tier::Quick => QUICK.get_or_init(|| vec![Box::new(FStdlibLarge), Box::new(FStdlibBigInts { max_entries: 3 }), Box::new(FStdlibReals { max_entries: 3 }), Box::new(FStdlib { max_entries: 3 })]),
        Tier::Thorough => THOROUGH.get_or_init(|| vec![Box::new(FStdlibLarge), Box::new(FStdlibBigInts { max_entries: 4 }), Box::new(FStdlibReals { max_entries: 4 }), Box::new(FStdlib { max_entries: 4 })]),
    }
}

static JUDGE: SemJudge = SemJudge { property: "C09", opts: RegionOpts { inline_array: false } };

impl Check for C09 {
    fn id(&self) -> &'static str {
        "C09"
    }
    fn info(&self, tier: Tier) -> CheckInfo {
        let fams = families(tier);
        CheckInfo {
            rule: "every table with up to the stated number of entries over the values {nil, 0, 1, 1.0, 2, \"a\", \"bb\", {}, -0.0} (ties, mixed numeric kinds and incomparable pairs included) x key style (array keys, string keys, mixed int/string/real/nil keys) x function in {filter, any, map, min, max, min_by_key, max_by_key, sorted, sorted_by_key, to_array} x callback / key-function variant (value, key, constant, predicate, allocating, re-entering the library, index / closure counting its calls in a captured variable; non-table inputs nil, 3, 0.5, \"s\", a function for the functions without callback) x call path (absolute std.x, imported, absolute with another import present). F-stdlib-reals: every table with up to the stated number of entries over the reals {0.0, 1e-20, -3e-17, the smallest subnormal, 0.1+0.2-0.3, 2.5} (string keys) x the ten functions x callback returning the value / the key resp. key function returning the value / its negation: every non-zero real is truthy, order is numeric. F-stdlib-bigints: every table with up to the stated number of entries over the integers {MAX, MAX-1, 2^53+1, 2^53, 0, -2^53-1, MIN+1, MIN} (neighbours that round to one f64) x the ten functions with value callbacks / key functions: integer order is exact. F-stdlib-reenter (variants of F-stdlib): key functions that call std.max / std.sorted / std.min_by_key on another six-row table while the outer call is in progress. F-stdlib-large: tables of 20, 21, 32, 33, 50 and 100 entries filled from 4 value patterns with many ties and out of order (integers; integers mixed with equal reals) x string / integer keys x the ten functions x value and negated-value key functions resp. value / gt1 callbacks. Oracle: direct specification functions in the reference semantics (same keys/values/order, first minimum/maximum, stable ascending order, input unchanged, callback invocation log with (k, v, i) arguments). min/max/sorted verdicts only where the compared results are pairwise comparable. 'states' = distinct reference outcomes per chunk".into(),
            bound: format!("families {:?}", fams.iter().map(|f| format!("{}={}", f.name(), f.len())).collect::<Vec<_>>()),
            exhaustive: true,
            assumptions: vec!["tables whose compared results are not pairwise comparable under the language's order are executed but not compared (smallest / largest / ascending are undefined there)".into(), "callbacks declare exactly the parameters the library passes ((k, v, i) resp. (key, value))".into()],
            explanation: "every case is compiled together with the injected library and run on the real VM".into(),
        }
    }
    fn units(&self, tier: Tier) -> u64 {
        progcheck::units_of(families(tier))
    }
    fn chunk(&self, _tier: Tier) -> u64 {
        4
    }
    fn unit_timeout_s(&self, _tier: Tier) -> u64 {
        60
    }
    fn run_unit(&self, tier: Tier, unit: u64, out: &mut ChunkResult) {
        progcheck::run_unit(&JUDGE, families(tier), tier, unit, out)
    }
    fn replay(&self, case: &J) -> Option<Violation> {
        progcheck::replay(&JUDGE, case)
    }
}
