//! C14 — ValueStack and BoundedStack are bounded LIFO stacks.
//!
//! Explicit-state search to closure over operation histories of the real stacks, compared step by
//! step with a Vec model. Canonical state = the full backing array (dead slots included) + count.

use cao_lang::collections::bounded_stack::BoundedStack;
use cao_lang::collections::value_stack::ValueStack;
use cao_lang::prelude::Value;
use cvx_core::engine::{Check, CheckInfo, ChunkResult, Tier, Violation};
use cvx_core::hist::{self, BfsCfg, Diverge, HistSystem};
use serde::{Deserialize, Serialize};
use serde_json::{json, Value as J};
use std::cell::RefCell;
use std::rc::Rc;

pub struct C14;

// ------------------------------------------------------------------------------------------------
// ValueStack
// ------------------------------------------------------------------------------------------------

#[derive(Clone, Debug, Serialize, Deserialize)]
pub enum VOp {
    Push(i64), // 0 = nil, else Integer(v)
    Pop,
    PopN(u8),
    PopWOffset(usize),
    Set(usize, i64),
    Clear,
    ClearUntil(usize),
}

fn val(v: i64) -> Value {
    if v == 0 {
        Value::Nil
    } else {
        Value::Integer(v)
    }
}

fn enc(v: Value) -> i64 {
    match v {
        Value::Nil => 0,
        Value::Integer(i) => i,
        Value::Real(_) => -777,
        Value::Object(_) => -778,
    }
}

struct VSys {
    cap: usize,
}

struct VInst {
    real: ValueStack,
    model: Vec<i64>,
}

fn d(key: &str, what: String) -> Diverge {
    (key.to_string(), what)
}

impl HistSystem for VSys {
    type Op = VOp;
    type Inst = VInst;

    fn fresh(&self) -> VInst {
        VInst {
            real: ValueStack::new(self.cap),
            model: Vec::new(),
        }
    }

    fn ops(&self, inst: &VInst) -> Vec<VOp> {
        let mut ops = vec![VOp::Push(0), VOp::Push(1), VOp::Push(2), VOp::Pop];
        for n in 1..=3u8 {
            ops.push(VOp::PopN(n));
        }
        for o in 0..=self.cap {
            ops.push(VOp::PopWOffset(o));
        }
        for i in 0..=self.cap + 1 {
            ops.push(VOp::Set(i, 1));
            ops.push(VOp::Set(i, 2));
        }
        ops.push(VOp::Clear);
        for h in 0..=inst.model.len() {
            ops.push(VOp::ClearUntil(h));
        }
        ops
    }

    fn apply(&self, inst: &mut VInst, op: &VOp) -> Result<(), Diverge> {
        let m = &mut inst.model;
        let before = m.clone();
        match op {
            VOp::Push(v) => {
                let r = inst.real.push(val(*v));
                let free = self.cap - m.len().min(self.cap);
                match r {
                    Ok(()) => {
                        if m.len() >= self.cap {
                            return Err(d("push/over-capacity", format!("push succeeded with {} values in a stack of capacity {}", m.len(), self.cap)));
                        }
                        m.push(*v);
                    }
                    Err(_) => {
                        if free >= 2 {
                            return Err(d("push/spurious-full", format!("push failed with {free} free slots (capacity {}, height {})", self.cap, m.len())));
                        }
                    }
                }
            }
            VOp::Pop => {
                let got = enc(inst.real.pop());
                let exp = m.pop().unwrap_or(0);
                if got != exp {
                    return Err(d("pop/value", format!("pop returned {got}, model {exp} (model contents before: {before:?})")));
                }
            }
            VOp::PopN(n) => {
                let got: Vec<i64> = match n {
                    1 => inst.real.pop_n::<1>().iter().map(|v| enc(*v)).collect(),
                    2 => inst.real.pop_n::<2>().iter().map(|v| enc(*v)).collect(),
                    _ => inst.real.pop_n::<3>().iter().map(|v| enc(*v)).collect(),
                };
                let mut exp = Vec::new();
                for _ in 0..*n {
                    exp.push(m.pop().unwrap_or(0));
                }
                if got != exp {
                    return Err(d("pop_n/value", format!("pop_n::<{n}> returned {got:?}, model {exp:?} (before: {before:?})")));
                }
            }
            VOp::PopWOffset(o) => {
                let got = enc(inst.real.pop_w_offset(*o));
                let exp = if m.len() <= *o { 0 } else { m.pop().unwrap_or(0) };
                if got != exp {
                    return Err(d("pop_w_offset/value", format!("pop_w_offset({o}) returned {got}, model {exp} (before: {before:?})")));
                }
            }
            VOp::Set(i, v) => {
                let r = inst.real.set(*i, val(*v));
                if *i > m.len() {
                    if r.is_ok() {
                        return Err(d("set/beyond-height-accepted", format!("set({i}) accepted at height {}", m.len())));
                    }
                } else if *i == m.len() {
                    // a write at the current height pushes
                    let free = self.cap - m.len().min(self.cap);
                    match r {
                        Ok(old) => {
                            if m.len() >= self.cap {
                                return Err(d("set/over-capacity", format!("set at height pushed beyond capacity {}", self.cap)));
                            }
                            if enc(old) != 0 {
                                return Err(d("set/old-value-at-height", format!("set at the current height returned old value {} (there is none)", enc(old))));
                            }
                            m.push(*v);
                        }
                        Err(_) => {
                            if free >= 2 {
                                return Err(d("set/spurious-full", format!("set at height failed with {free} free slots")));
                            }
                        }
                    }
                } else {
                    match r {
                        Ok(old) => {
                            if enc(old) != m[*i] {
                                return Err(d("set/old-value", format!("set({i}) returned old {} model {}", enc(old), m[*i])));
                            }
                            m[*i] = *v;
                        }
                        Err(e) => return Err(d("set/rejected-valid-index", format!("set({i}) at height {} failed: {e}", m.len()))),
                    }
                }
            }
            VOp::Clear => {
                inst.real.clear();
                m.clear();
            }
            VOp::ClearUntil(h) => {
                let got = enc(inst.real.clear_until(*h));
                let exp = m.last().copied().unwrap_or(0);
                m.truncate(*h);
                if got != exp {
                    return Err(d("clear_until/value", format!("clear_until({h}) returned {got}, model (top before truncation) {exp}")));
                }
            }
        }
        Ok(())
    }

    fn invariants(&self, inst: &mut VInst) -> Result<(), Diverge> {
        let m = &inst.model;
        let r = &mut inst.real;
        if r.len() != m.len() {
            return Err(d("len", format!("len {} model {}", r.len(), m.len())));
        }
        if r.len() > self.cap {
            return Err(d("len/over-capacity", format!("len {} capacity {}", r.len(), self.cap)));
        }
        if r.is_empty() != m.is_empty() {
            return Err(d("is_empty", format!("is_empty {} model {}", r.is_empty(), m.is_empty())));
        }
        let slice: Vec<i64> = r.as_slice().iter().map(|v| enc(*v)).collect();
        if &slice != m {
            return Err(d("as_slice", format!("as_slice {slice:?} model {m:?}")));
        }
        let it: Vec<i64> = r.iter().map(enc).collect();
        if &it != m {
            return Err(d("iter", format!("iter {it:?} model {m:?}")));
        }
        for i in 0..=self.cap + 1 {
            let got = enc(r.get(i));
            let exp = m.get(i).copied().unwrap_or(0);
            if got != exp {
                return Err(d("get", format!("get({i}) = {got}, model {exp} (contents {m:?})")));
            }
        }
        let got = enc(r.last());
        let exp = m.last().copied().unwrap_or(0);
        if got != exp {
            return Err(d("last", format!("last = {got}, model {exp}")));
        }
        for n in 0..=self.cap + 1 {
            let got = enc(r.peek_last(n));
            let exp = if m.len() > n { m[m.len() - 1 - n] } else { 0 };
            if got != exp {
                return Err(d("peek_last", format!("peek_last({n}) = {got}, model {exp} (contents {m:?})")));
            }
        }
        if r.top_location().is_null() != m.is_empty() {
            return Err(d("top_location", "top_location null iff empty violated".to_string()));
        }
        Ok(())
    }

    fn canon(&self, inst: &VInst) -> Vec<u8> {
        // Debug prints count and the whole backing array, dead slots included
        format!("{:?}", inst.real).into_bytes()
    }

    fn finish(&self, _inst: VInst) -> Result<(), Diverge> {
        Ok(())
    }

    fn nontrivial(&self, inst: &VInst) -> bool {
        // a state with a dead slot that still holds a non-nil value: the states in which a stale
        // read would be observable
        let s = format!("{:?}", inst.real);
        let live = inst.model.iter().filter(|v| **v != 0).count();
        s.matches("Integer(").count() > live
    }

    fn op_kind(&self, op: &VOp) -> String {
        match op {
            VOp::Push(_) => "push",
            VOp::Pop => "pop",
            VOp::PopN(_) => "pop_n",
            VOp::PopWOffset(_) => "pop_w_offset",
            VOp::Set(..) => "set",
            VOp::Clear => "clear",
            VOp::ClearUntil(_) => "clear_until",
        }
        .to_string()
    }

    fn outcome(&self, inst: &VInst) -> String {
        format!("vs cap{} height{}", self.cap, inst.model.len())
    }
}

// ------------------------------------------------------------------------------------------------
// BoundedStack with a drop ledger
// ------------------------------------------------------------------------------------------------

#[derive(Clone, Debug, Serialize, Deserialize)]
pub enum BOp {
    Push(u8),
    Pop,
    LastMutWrite(u8),
    Clear,
}

type Ledger = Rc<RefCell<Vec<u32>>>;

/// element whose destructor records the drop in a ledger; it owns nothing, so that even a double
/// drop is memory-safe and is seen as a count of 2
struct Tracked {
    id: usize,
    v: u8,
    ledger: *const RefCell<Vec<u32>>,
}

impl Drop for Tracked {
    fn drop(&mut self) {
        unsafe {
            (*self.ledger).borrow_mut()[self.id] += 1;
        }
    }
}

struct BSys {
    cap: usize,
}

struct BInst {
    real: Option<BoundedStack<Tracked>>,
    model: Vec<(usize, u8)>,
    ledger: Ledger,
    /// ids the model says are gone (popped / cleared)
    released: Vec<usize>,
}

impl BInst {
    fn mk(&mut self, v: u8) -> Tracked {
        let id = self.ledger.borrow().len();
        self.ledger.borrow_mut().push(0);
        Tracked {
            id,
            v,
            ledger: Rc::as_ptr(&self.ledger),
        }
    }
    fn ledger_check(&self, when: &str) -> Result<(), Diverge> {
        let l = self.ledger.borrow();
        for (id, drops) in l.iter().enumerate() {
            let live = self.model.iter().any(|(i, _)| *i == id);
            let exp = if live { 0 } else { 1 };
            if *drops != exp {
                return Err(d(
                    &format!("drop-ledger/{}", if *drops > exp { "double-drop" } else { "leak" }),
                    format!("{when}: element #{id} dropped {drops} times, expected {exp} (live in model: {live})"),
                ));
            }
        }
        Ok(())
    }
}

impl HistSystem for BSys {
    type Op = BOp;
    type Inst = BInst;

    fn fresh(&self) -> BInst {
        BInst {
            real: Some(BoundedStack::new(self.cap)),
            model: Vec::new(),
            ledger: Rc::new(RefCell::new(Vec::new())),
            released: Vec::new(),
        }
    }

    fn ops(&self, _inst: &BInst) -> Vec<BOp> {
        vec![BOp::Push(1), BOp::Push(2), BOp::Pop, BOp::LastMutWrite(3), BOp::Clear]
    }

    fn apply(&self, inst: &mut BInst, op: &BOp) -> Result<(), Diverge> {
        match op {
            BOp::Push(v) => {
                let t = inst.mk(*v);
                let id = t.id;
                let r = inst.real.as_mut().unwrap().push(t);
                match r {
                    Ok(()) => {
                        if inst.model.len() >= self.cap {
                            return Err(d("bpush/over-capacity", format!("push succeeded at height {} capacity {}", inst.model.len(), self.cap)));
                        }
                        inst.model.push((id, *v));
                    }
                    Err(_) => {
                        // the rejected element was consumed by the call and must have been dropped
                        if inst.model.len() < self.cap {
                            return Err(d("bpush/spurious-full", format!("push failed at height {} capacity {}", inst.model.len(), self.cap)));
                        }
                    }
                }
            }
            BOp::Pop => {
                let got = inst.real.as_mut().unwrap().pop();
                let exp = inst.model.pop();
                match (got, exp) {
                    (None, None) => {}
                    (Some(t), Some((id, v))) => {
                        if t.id != id || t.v != v {
                            let (gid, gv) = (t.id, t.v);
                            std::mem::forget(t);
                            return Err(d("bpop/value", format!("pop returned element #{gid} value {gv}, model #{id} value {v}")));
                        }
                        inst.released.push(id);
                        drop(t);
                    }
                    (Some(t), None) => {
                        let gid = t.id;
                        std::mem::forget(t);
                        return Err(d("bpop/from-empty", format!("pop on an empty stack returned element #{gid}")));
                    }
                    (None, Some((id, _))) => return Err(d("bpop/none", format!("pop returned None, model has element #{id} on top"))),
                }
            }
            BOp::LastMutWrite(v) => {
                let got = inst.real.as_mut().unwrap().last_mut().map(|t| {
                    t.v = *v;
                    t.id
                });
                let exp = inst.model.last_mut().map(|e| {
                    e.1 = *v;
                    e.0
                });
                if got != exp {
                    return Err(d("last_mut", format!("last_mut addressed {got:?}, model {exp:?}")));
                }
            }
            BOp::Clear => {
                inst.real.as_mut().unwrap().clear();
                for (id, _) in inst.model.drain(..) {
                    inst.released.push(id);
                }
            }
        }
        inst.ledger_check("after the operation")
    }

    fn invariants(&self, inst: &mut BInst) -> Result<(), Diverge> {
        let r = inst.real.as_ref().unwrap();
        let m = &inst.model;
        if r.len() != m.len() || r.is_empty() != m.is_empty() {
            return Err(d("blen", format!("len {} model {}", r.len(), m.len())));
        }
        if r.capacity() != self.cap {
            return Err(d("bcapacity", format!("capacity {} expected {}", r.capacity(), self.cap)));
        }
        let it: Vec<(usize, u8)> = r.iter().map(|t| (t.id, t.v)).collect();
        if &it != m {
            return Err(d("biter", format!("iter {it:?} model {m:?}")));
        }
        let mut back: Vec<(usize, u8)> = r.iter_backwards().map(|t| (t.id, t.v)).collect();
        back.reverse();
        if &back != m {
            return Err(d("biter_backwards", format!("iter_backwards (reversed) {back:?} model {m:?}")));
        }
        let last = r.last().map(|t| (t.id, t.v));
        if last != m.last().copied() {
            return Err(d("blast", format!("last {last:?} model {:?}", m.last())));
        }
        Ok(())
    }

    fn canon(&self, inst: &BInst) -> Vec<u8> {
        // concrete state = head + the live prefix (slots above head are uninitialised memory the
        // API never reads); element identities renamed away, values kept
        let mut v = vec![inst.model.len() as u8];
        v.extend(inst.model.iter().map(|(_, x)| *x));
        v
    }

    fn finish(&self, mut inst: BInst) -> Result<(), Diverge> {
        drop(inst.real.take());
        inst.model.clear();
        inst.ledger_check("after dropping the stack")
    }

    fn nontrivial(&self, inst: &BInst) -> bool {
        inst.model.len() >= 2 || inst.model.len() == self.cap
    }

    fn op_kind(&self, op: &BOp) -> String {
        match op {
            BOp::Push(_) => "bpush",
            BOp::Pop => "bpop",
            BOp::LastMutWrite(_) => "last_mut",
            BOp::Clear => "bclear",
        }
        .to_string()
    }

    fn outcome(&self, inst: &BInst) -> String {
        format!("bs cap{} height{}", self.cap, inst.model.len())
    }
}

// ------------------------------------------------------------------------------------------------
// BoundedStack of a plain type without drop glue (the VM's call stack holds such a type)
// ------------------------------------------------------------------------------------------------

struct PSys {
    cap: usize,
}

struct PInst {
    real: BoundedStack<u32>,
    model: Vec<u32>,
}

impl HistSystem for PSys {
    type Op = BOp;
    type Inst = PInst;

    fn fresh(&self) -> PInst {
        PInst { real: BoundedStack::new(self.cap), model: Vec::new() }
    }
    fn ops(&self, _inst: &PInst) -> Vec<BOp> {
        vec![BOp::Push(1), BOp::Push(2), BOp::Pop, BOp::LastMutWrite(3), BOp::Clear]
    }
    fn apply(&self, inst: &mut PInst, op: &BOp) -> Result<(), Diverge> {
        match op {
            BOp::Push(v) => match inst.real.push(*v as u32) {
                Ok(()) => {
                    if inst.model.len() >= self.cap {
                        return Err(d("ppush/over-capacity", format!("push succeeded at height {} capacity {}", inst.model.len(), self.cap)));
                    }
                    inst.model.push(*v as u32);
                }
                Err(_) => {
                    if inst.model.len() < self.cap {
                        return Err(d("ppush/spurious-full", format!("push failed at height {} capacity {}", inst.model.len(), self.cap)));
                    }
                }
            },
            BOp::Pop => {
                let (got, exp) = (inst.real.pop(), inst.model.pop());
                if got != exp {
                    return Err(d("ppop/value", format!("pop returned {got:?}, model {exp:?}")));
                }
            }
            BOp::LastMutWrite(v) => {
                let got = inst.real.last_mut().map(|x| {
                    *x = *v as u32;
                });
                let exp = inst.model.last_mut().map(|x| {
                    *x = *v as u32;
                });
                if got != exp {
                    return Err(d("plast_mut", "last_mut presence differs from the model".to_string()));
                }
            }
            BOp::Clear => {
                inst.real.clear();
                inst.model.clear();
            }
        }
        Ok(())
    }
    fn invariants(&self, inst: &mut PInst) -> Result<(), Diverge> {
        let (r, m) = (&inst.real, &inst.model);
        if r.len() != m.len() || r.is_empty() != m.is_empty() {
            return Err(d("plen", format!("len {} model {}", r.len(), m.len())));
        }
        let it: Vec<u32> = r.iter().copied().collect();
        if &it != m {
            return Err(d("piter", format!("iter {it:?} model {m:?}")));
        }
        let mut back: Vec<u32> = r.iter_backwards().copied().collect();
        back.reverse();
        if &back != m {
            return Err(d("piter_backwards", format!("iter_backwards {back:?} model {m:?}")));
        }
        if r.last().copied() != m.last().copied() {
            return Err(d("plast", format!("last {:?} model {:?}", r.last(), m.last())));
        }
        Ok(())
    }
    fn canon(&self, inst: &PInst) -> Vec<u8> {
        let mut v = vec![inst.model.len() as u8];
        v.extend(inst.model.iter().map(|x| *x as u8));
        v
    }
    fn finish(&self, _inst: PInst) -> Result<(), Diverge> {
        Ok(())
    }
    fn nontrivial(&self, inst: &PInst) -> bool {
        inst.model.len() >= 2 || inst.model.len() == self.cap
    }
    fn op_kind(&self, op: &BOp) -> String {
        match op {
            BOp::Push(_) => "ppush",
            BOp::Pop => "ppop",
            BOp::LastMutWrite(_) => "plast_mut",
            BOp::Clear => "pclear",
        }
        .to_string()
    }
    fn outcome(&self, inst: &PInst) -> String {
        format!("ps cap{} height{}", self.cap, inst.model.len())
    }
}

// ------------------------------------------------------------------------------------------------

fn vcaps(tier: Tier) -> Vec<usize> {
    tier.pick(vec![1, 2, 3, 4], vec![1, 2, 3, 4, 5, 6])
}
fn bcaps(tier: Tier) -> Vec<usize> {
    tier.pick(vec![1, 2, 3, 4], vec![1, 2, 3, 4, 5, 6])
}

fn cfg(kind: &str, cap: usize, threads: usize) -> BfsCfg<'static> {
    BfsCfg {
        property: "C14",
        case_base: json!({"stack": kind, "capacity": cap}),
        max_depth: 64,
        max_states: 5_000_000,
        threads,
        deadline: None,
    }
}

impl Check for C14 {
    fn id(&self) -> &'static str {
        "C14"
    }

    fn info(&self, tier: Tier) -> CheckInfo {
        CheckInfo {
            rule: "explicit-state BFS to closure over histories of push(nil|1|2)/pop/pop_n<1..3>/pop_w_offset(0..cap)/set(0..cap+1,1|2)/clear/clear_until(0..height) on the real ValueStack and push/pop/last_mut-write/clear on BoundedStack<drop-tracked> and on BoundedStack<u32> (a type without drop glue, like the VM's call frames); every step compared with a Vec model, all observers (get/last/peek_last/len/is_empty/iter/as_slice/top_location) evaluated in every state; canonical state = full backing array incl. dead slots + count. Non-trivial = state with a dead slot still holding a non-nil value (ValueStack) / height>=2 or full (BoundedStack)".into(),
            bound: format!("closure of the reachable concrete state space for ValueStack capacities {:?} and BoundedStack capacities {:?}", vcaps(tier), bcaps(tier)),
            exhaustive: true,
            assumptions: vec![
                "value alphabet {nil,1,2}: the stacks never inspect values, so behaviour is uniform in the value".into(),
                "clear_until(h) with h above the current height is outside the property statement and not generated".into(),
                "push with exactly one free slot (ValueStack) may succeed or fail: the statement only requires success with two free slots".into(),
            ],
            explanation: "every transition is an operation of the real stack; the Vec model is only the oracle".into(),
        }
    }

    fn units(&self, tier: Tier) -> u64 {
        (vcaps(tier).len() + 2 * bcaps(tier).len()) as u64
    }

    fn run_unit(&self, tier: Tier, unit: u64, out: &mut ChunkResult) {
        let v = vcaps(tier);
        let u = unit as usize;
        if u < v.len() {
            let sys = VSys { cap: v[u] };
            hist::bfs(&sys, &cfg("value_stack", v[u], 4), out);
        } else if u < v.len() + bcaps(tier).len() {
            let cap = bcaps(tier)[u - v.len()];
            let sys = BSys { cap };
            hist::bfs(&sys, &cfg("bounded_stack", cap, 2), out);
        } else {
            let cap = bcaps(tier)[u - v.len() - bcaps(tier).len()];
            hist::bfs(&PSys { cap }, &cfg("bounded_stack_plain", cap, 2), out);
        }
    }

    fn replay(&self, case: &J) -> Option<Violation> {
        let cap = case["capacity"].as_u64()? as usize;
        match case["stack"].as_str()? {
            "value_stack" => {
                let h: Vec<VOp> = serde_json::from_value(case["history"].clone()).ok()?;
                hist::replay(&VSys { cap }, &cfg("value_stack", cap, 1), &h)
            }
            "bounded_stack_plain" => {
                let h: Vec<BOp> = serde_json::from_value(case["history"].clone()).ok()?;
                hist::replay(&PSys { cap }, &cfg("bounded_stack_plain", cap, 1), &h)
            }
            _ => {
                let h: Vec<BOp> = serde_json::from_value(case["history"].clone()).ok()?;
                hist::replay(&BSys { cap }, &cfg("bounded_stack", cap, 1), &h)
            }
        }
    }
}
