//! C08 — a call invokes exactly the function that name resolution designates.
//!
//! Module trees with same-named functions in different modules x call-site position x name form
//! x import list; the oracle is the independent resolver of the reference interpreter (it never
//! sees the flattened jump table) plus the reference run (which function body ran, parameters,
//! caller locals, return value).

use crate::checks::c01::compare;
use crate::progcheck::{self, fnv, Judge, JR};
use crate::realrun::{self, CompileOutcome, RunCfg};
use cvx_core::engine::{Check, CheckInfo, ChunkResult, Tier, Violation};
use cvx_core::gen_basic::{CfgLite, Family};
use cvx_core::gen_more::FCall;
use cvx_core::gen_resolve::{FBadNames, FCallMain, FConcat, FImportScope, FResolve, FResolveTwo, FSuperLike};
use cvx_core::ir::{b, call, func, int, module, rv, s, sg, Func, Module, C};
use cvx_core::refsem::{self, CompileVerdict};
use serde_json::Value as J;
use std::sync::OnceLock;

pub struct C08;
pub struct ResolveJudge;

impl Judge for ResolveJudge {
    fn property(&self) -> &'static str {
        "C08"
    }
    fn judge(&self, m: &Module, _cfg: Option<&CfgLite>) -> JR {
        let natives = refsem::default_natives();
        let interp = refsem::Interp::new(m, natives.clone());
        let verdict = interp.program().compile_verdict();
        let (co, prog) = realrun::compile_real(m);
        match (&verdict, co, prog) {
            (_, CompileOutcome::Panic(p), _) => {
                let class: String = p.chars().filter(|c| !c.is_ascii_digit()).take(50).collect();
                JR::Fail { class: format!("compile-panic:{class}"), what: format!("the compiler panicked: {p}") }
            }
            (CompileVerdict::Unspecified(u), _, _) => JR::Skip(format!("unspecified: {}", u.split(' ').next().unwrap_or(""))),
            (CompileVerdict::MustFail(kinds), CompileOutcome::Ok, _) => JR::Fail { class: format!("accepted:{}", kinds.join("+")), what: format!("the module must be rejected ({}), but it compiles", kinds.join(" / ")) },
            (CompileVerdict::MustFail(kinds), CompileOutcome::Err { kind, .. }, _) => JR::Pass { outcome: format!("rejected:{kind}"), fingerprint: fnv(&format!("{kinds:?}{kind}")) },
            (CompileVerdict::Ok, CompileOutcome::Err { kind, .. }, _) => JR::Fail { class: format!("rejected:{kind}"), what: format!("every name of the module resolves, but compilation fails with {kind}") },
            (CompileVerdict::Ok, CompileOutcome::Ok, Some(prog)) => {
                let exp = interp.run();
                if let Some(u) = &exp.undefined {
                    return JR::Skip(format!("undefined: {u}"));
                }
                let got = realrun::run_program(m, &prog, &natives, &RunCfg::default());
                match compare(&exp, &got) {
                    Some((class, what)) => JR::Fail { class, what },
                    None => JR::Pass { outcome: "resolved".into(), fingerprint: fnv(&format!("{:?}{:?}", exp.globals, exp.log)) },
                }
            }
            _ => JR::Fail { class: "no-program".into(), what: "compile reported Ok without a program".into() },
        }
    }
}

static FAMS: OnceLock<Vec<Box<dyn Family>>> = OnceLock::new();

/// Card labels and function labels live in one table keyed by 32-bit handles. A card whose index
/// (function, path) hashes to the handle of a function compiled *before* it would replace that
/// function's label, and a call of the function would run the card. The collisions are searched
/// with the crate's own `CardIndex::as_handle` / `Handle::from_u64` (function index <= 20, paths
/// of three indices below 170 / 140 / 160: 72 million card indices), in a fixed order; the first
/// three become programs: functions f1..fn that each record their name, the colliding card deep
/// inside fn (behind Comment cards), `main` calls the function whose handle the card shares.
pub struct FLabelClash;

static CLASHES: OnceLock<Vec<(u32, [u32; 3], u32)>> = OnceLock::new();

fn clashes() -> &'static Vec<(u32, [u32; 3], u32)> {
    CLASHES.get_or_init(|| {
        use cao_lang::compiler::CardIndex;
        use cao_lang::prelude::Handle;
        let mut found = Vec::new();
        let targets: Vec<u32> = (0..=20u64).map(|g| Handle::from_u64(g).value()).collect();
        'search: for f in 2..=20u32 {
            for a in 0..170u32 {
                for b2 in 0..140u32 {
                    for c in 0..160u32 {
                        let h = CardIndex::from_slice(f as usize, &[a, b2, c]).as_handle().value();
                        // a function compiled before function f: 1 .. f-1
                        if let Some(g) = targets[1..f as usize].iter().position(|t| *t == h) {
                            found.push((f, [a, b2, c], g as u32 + 1));
                            if found.len() == 3 {
                                break 'search;
                            }
                        }
                    }
                }
            }
        }
        found
    })
}

impl Family for FLabelClash {
    fn name(&self) -> &'static str {
        "F-label-clash"
    }
    fn len(&self) -> u64 {
        3
    }
    fn case(&self, idx: u64) -> Module {
        let Some(&(f, [a, b2, c], g)) = clashes().get(idx as usize) else {
            // fewer collisions than cases within the searched bounds: nothing to build
            return module(vec![("main", func(&[], vec![sg("no_clash_found", int(1))]))]);
        };
        let comments = |n: u32| -> Vec<C> { (0..n).map(|_| C::Comment("c".into())).collect() };
        let mut functions: Vec<(String, Func)> = vec![("main".into(), func(&[], vec![sg("ret", call(&format!("f{g}"), vec![])), sg("seen", rv("tag"))]))];
        for i in 1..f {
            functions.push((format!("f{i}"), func(&[], vec![sg("tag", s(&format!("f{i}"))), C::Return(b(s(&format!("ret f{i}"))))])));
        }
        // function f: card f.a.b.c is `global tag = "inner"`
        let mut innermost = comments(c);
        innermost.push(sg("tag", s("card inside the last function")));
        let mut middle = comments(b2);
        middle.push(C::Composite("inner".into(), innermost));
        let mut top = comments(a);
        top.push(C::Composite("middle".into(), middle));
        functions.push((format!("f{f}"), func(&[], top)));
        Module { submodules: vec![], functions, imports: vec![] }
    }
}

pub fn families(_tier: Tier) -> &'static Vec<Box<dyn Family>> {
    FAMS.get_or_init(|| vec![Box::new(FCallMain), Box::new(FLabelClash), Box::new(FConcat), Box::new(FSuperLike), Box::new(FBadNames), Box::new(FCall), Box::new(FResolveTwo), Box::new(FResolve), Box::new(FImportScope)])
}

static JUDGE: ResolveJudge = ResolveJudge;

impl Check for C08 {
    fn id(&self) -> &'static str {
        "C08"
    }
    fn info(&self, tier: Tier) -> CheckInfo {
        let fams = families(tier);
        CheckInfo {
            rule: "F-resolve-two: two call sites in one function, every ordered pair of the 10 called names x 20 import lists x caller in root / a / a.b x 3 trees (the second name must resolve independently of how the first was found). F-resolve: 128 module trees (presence of f/g in root, a, a.b, b: same short names reused across modules) x call site in root / a / a.b x 10 called names (f, g, a.f, a.b.f, b.f, b.g, std.row_to_value, x, filter, a.b.g) x static Call / Function value + dynamic call x 20 import lists (function imports, module-prefix imports, super. walking up one to three levels, no dot, duplicates, ambiguous pairs, library imports); every generated function logs and returns its own full path. F-import-scope: the same trees with the import list on one module and the import-less caller in another (descendant, parent, sibling; 6 pairs) x 10 called names x 20 import lists. F-label-clash: the first three (function, 3-deep card path) pairs within 72 million searched card indices whose card label shares its 32-bit handle with an earlier function's label, as programs calling that function. F-concat: every ordered pair of 9 call sites (module path, called name) of which four read alike once path and name are written without a separator (root:abf, a:bf, a.b:f, ab:f), static and dynamic. F-badnames: invalid / reserved / duplicate function and module names and user functions named like library functions at three levels. F-call: arity 0-3, parameter binding, caller-locals canary, return positions, recursion. Oracle: independent resolver over the module tree (absolute path, caller's module, function imports, module-prefix imports) + reference run. 'states' = distinct reference outcomes per chunk".into(),
            bound: format!("families {:?}, {} module trees", fams.iter().map(|f| format!("{}={}", f.name(), f.len())).collect::<Vec<_>>(), progcheck::total_cases(fams)),
            exhaustive: true,
            assumptions: vec![
                "module trees containing an import that is merely odd (empty segment, super. in the middle) are only required not to crash".into(),
                "a must-be-error module may be rejected with any CompilationErrorPayload variant (the statement does not fix the variant)".into(),
            ],
            explanation: "resolution is observed end to end: which body ran is read from the host-call log of the real VM".into(),
        }
    }
    fn units(&self, tier: Tier) -> u64 {
        progcheck::units_of(families(tier))
    }
    fn chunk(&self, _tier: Tier) -> u64 {
        4
    }
    fn unit_timeout_s(&self, _tier: Tier) -> u64 {
        60
    }
    fn run_unit(&self, tier: Tier, unit: u64, out: &mut ChunkResult) {
        progcheck::run_unit(&JUDGE, families(tier), tier, unit, out)
    }
    fn replay(&self, case: &J) -> Option<Violation> {
        progcheck::replay(&JUDGE, case)
    }
}
