//! C18 — host functions receive the right arguments and can safely re-enter scripts.
//!
//! (a) typed-parameter matrix: natives of arity 0..4 whose parameter types rotate through
//!     {Value, i64, f64, &str, &CaoLangTable, *mut CaoLangTable, Nilable<i64>, bool}, called with
//!     every value kind through CallNative / a native function value / host re-entry, at call
//!     depth 0..2; (b) the re-entry family through the reference interpreter.

use crate::checks::c01::SemJudge;
use crate::lower;
use crate::progcheck;
use cao_lang::compiler::{compile, CompileOptions};
use cao_lang::prelude::*;
use cao_lang::verif;
use cvx_core::engine::{Check, CheckInfo, ChunkResult, Tier, Violation};
use cvx_core::gen_basic::Family;
use cvx_core::gen_reenter::{FReenter, FTryCall};
use cvx_core::ir::{self, *};
use cvx_core::region::RegionOpts;
use serde_json::{json, Value as J};
use std::sync::OnceLock;

pub struct C18;

// ---- (a) typed parameters ----------------------------------------------------------------------

#[derive(Default)]
struct H {
    calls: Vec<(String, Vec<String>)>,
    notes: Vec<String>,
}

type HR = Result<Value, ExecutionErrorPayload>;

trait Param: Sized {
    const TY: usize;
    fn describe(&self) -> String;
}

fn describe_value(v: &Value) -> String {
    match v {
        Value::Nil => "nil".into(),
        Value::Integer(i) => format!("int {i}"),
        Value::Real(r) => format!("real {r:?}"),
        Value::Object(_) => match unsafe { v.as_str() } {
            Some(s) => format!("str {s:?}"),
            None => match unsafe { v.as_table() } {
                Some(t) => format!("table/{}", t.len()),
                None => "function".into(),
            },
        },
    }
}

impl Param for Value {
    const TY: usize = 0;
    fn describe(&self) -> String {
        describe_value(self)
    }
}
impl Param for i64 {
    const TY: usize = 1;
    fn describe(&self) -> String {
        format!("i64 {self}")
    }
}
impl Param for f64 {
    const TY: usize = 2;
    fn describe(&self) -> String {
        format!("f64 {self:?}")
    }
}
impl Param for &str {
    const TY: usize = 3;
    fn describe(&self) -> String {
        format!("&str {self:?}")
    }
}
impl Param for &CaoLangTable {
    const TY: usize = 4;
    fn describe(&self) -> String {
        format!("&table/{}", self.len())
    }
}
impl Param for *mut CaoLangTable {
    const TY: usize = 5;
    fn describe(&self) -> String {
        format!("*table/{}", unsafe { (**self).len() })
    }
}
impl Param for Nilable<i64> {
    const TY: usize = 6;
    fn describe(&self) -> String {
        match self.0 {
            None => "nilable none".into(),
            Some(i) => format!("nilable {i}"),
        }
    }
}
impl Param for bool {
    const TY: usize = 7;
    fn describe(&self) -> String {
        format!("bool {self}")
    }
}

const TYPE_NAMES: [&str; 8] = ["Value", "i64", "f64", "&str", "&CaoLangTable", "*mut CaoLangTable", "Nilable<i64>", "bool"];

fn rec(vm: &mut Vm<H>, name: &str, args: Vec<String>, ret: i64) -> HR {
    vm.auxiliary_data.calls.push((name.to_string(), args));
    Ok(Value::Integer(ret))
}

fn t0(vm: &mut Vm<H>) -> HR {
    rec(vm, "t0", vec![], 1000)
}
fn t1<A: Param>(vm: &mut Vm<H>, a: A) -> HR {
    rec(vm, &format!("t1_{}", A::TY), vec![a.describe()], 1001)
}
fn t2<A: Param, B: Param>(vm: &mut Vm<H>, a: A, b: B) -> HR {
    rec(vm, &format!("t2_{}", A::TY), vec![a.describe(), b.describe()], 1002)
}
fn t3<A: Param, B: Param, C_: Param>(vm: &mut Vm<H>, a: A, b: B, c: C_) -> HR {
    rec(vm, &format!("t3_{}", A::TY), vec![a.describe(), b.describe(), c.describe()], 1003)
}
fn t4<A: Param, B: Param, C_: Param, D: Param>(vm: &mut Vm<H>, a: A, b: B, c: C_, d: D) -> HR {
    rec(vm, &format!("t4_{}", A::TY), vec![a.describe(), b.describe(), c.describe(), d.describe()], 1004)
}
/// host function that hands its argument to a native function value through run_function
fn via_run_function(vm: &mut Vm<H>, f: Value, a: Value) -> HR {
    let before = (verif::stack(&vm.runtime_data).len(), verif::frames(&vm.runtime_data).len());
    vm.stack_push(a)?;
    let r = vm.run_function(f);
    // whether the callee returned or failed (in its body, or already at the conversion of its
    // argument): the pushed argument is consumed and the stacks are what they were
    let after = (verif::stack(&vm.runtime_data).len(), verif::frames(&vm.runtime_data).len());
    if after != before {
        vm.auxiliary_data.notes.push(format!("run_function {}: (value stack, call stack) {before:?} before the argument was pushed, {after:?} afterwards", if r.is_ok() { "returned" } else { "failed" }));
    }
    r
}

macro_rules! rot {
    // the eight rotations of the type list, position p of rotation r has type (r + p) % 8
    ($m:ident) => {
        $m!(0, Value, i64, f64, &'static str);
        $m!(1, i64, f64, &'static str, &'static CaoLangTable);
        $m!(2, f64, &'static str, &'static CaoLangTable, *mut CaoLangTable);
        $m!(3, &'static str, &'static CaoLangTable, *mut CaoLangTable, Nilable<i64>);
        $m!(4, &'static CaoLangTable, *mut CaoLangTable, Nilable<i64>, bool);
        $m!(5, *mut CaoLangTable, Nilable<i64>, bool, Value);
        $m!(6, Nilable<i64>, bool, Value, i64);
        $m!(7, bool, Value, i64, f64);
    };
}

fn register(vm: &mut Vm<H>) {
    vm.register_native_function("t0", t0 as fn(&mut Vm<H>) -> HR).unwrap();
    vm.register_native_function("via_run_function", into_f2(via_run_function)).unwrap();
    macro_rules! reg {
        ($r:expr, $a:ty, $b:ty, $c:ty, $d:ty) => {
            vm.register_native_function(format!("t1_{}", $r), into_f1(t1::<$a>)).unwrap();
            vm.register_native_function(format!("t2_{}", $r), into_f2(t2::<$a, $b>)).unwrap();
            vm.register_native_function(format!("t3_{}", $r), into_f3(t3::<$a, $b, $c>)).unwrap();
            vm.register_native_function(format!("t4_{}", $r), into_f4(t4::<$a, $b, $c, $d>)).unwrap();
        };
    }
    rot!(reg);
}

/// value kinds a script can supply
const KINDS: [&str; 7] = ["nil", "int", "real", "str", "table", "function", "negative real"];

fn supplied(kind: usize) -> C {
    match kind {
        0 => C::Nil,
        1 => int(42),
        2 => C::Float(2.5),
        3 => s("text"),
        4 => rv("tab"),
        6 => C::Float(-2.5),
        _ => C::Function("helper".into()),
    }
}

#[derive(Debug, Clone, PartialEq)]
enum Expect {
    Exactly(String),
    /// a coercing conversion: the documented coercion or a rejection
    Either(String),
    Reject,
}

/// the conversion table: parameter type x supplied kind
fn expect(ty: usize, kind: usize) -> Expect {
    use Expect::*;
    let coerced_i = |k: usize| match k {
        0 => "0".to_string(),
        2 => "2".to_string(),
        3 => "4".to_string(), // length of "text"
        4 => "2".to_string(), // length of the table
        6 => "-2".to_string(), // a real is cut off towards zero
        _ => "0".to_string(),
    };
    match (ty, kind) {
        (0, 0) => Exactly("nil".into()),
        (0, 1) => Exactly("int 42".into()),
        (0, 2) => Exactly("real 2.5".into()),
        (0, 3) => Exactly("str \"text\"".into()),
        (0, 4) => Exactly("table/2".into()),
        (0, 6) => Exactly("real -2.5".into()),
        (0, _) => Exactly("function".into()),
        (1, 1) => Exactly("i64 42".into()),
        (1, k) => Either(format!("i64 {}", coerced_i(k))),
        (2, 2) => Exactly("f64 2.5".into()),
        (2, 6) => Exactly("f64 -2.5".into()),
        (2, 1) => Either("f64 42.0".into()),
        (2, k) => Either(format!("f64 {}.0", coerced_i(k))),
        (3, 3) => Exactly("&str \"text\"".into()),
        (3, _) => Reject,
        (4, 4) => Exactly("&table/2".into()),
        (4, _) => Reject,
        (5, 4) => Exactly("*table/2".into()),
        (5, _) => Reject,
        (6, 0) => Exactly("nilable none".into()),
        (6, 1) => Exactly("nilable 42".into()),
        (6, k) => Either(format!("nilable {}", coerced_i(k))),
        (7, 0) => Either("bool false".into()),
        (7, _) => Either("bool true".into()),
        _ => Reject,
    }
}

#[derive(Clone, Debug)]
struct TCase {
    arity: usize,
    rot: usize,
    kinds: Vec<usize>,
    /// 0 CallNative card, 1 native function value + dynamic call, 2 through a host function's run_function (arity 1 only)
    path: usize,
    depth: usize,
}

fn tcases() -> Vec<TCase> {
    let mut v = Vec::new();
    for depth in 0..3 {
        for path in 0..3 {
            v.push(TCase { arity: 0, rot: 0, kinds: vec![], path: path.min(1), depth });
            for rot in 0..8 {
                for k in 0..KINDS.len() {
                    v.push(TCase { arity: 1, rot, kinds: vec![k], path, depth });
                }
                if path == 2 {
                    continue;
                }
                for k in 0..KINDS.len() * KINDS.len() {
                    v.push(TCase { arity: 2, rot, kinds: vec![k % KINDS.len(), k / KINDS.len()], path, depth });
                }
                for arity in [3usize, 4] {
                    // every position sees every kind while the others hold a value of the exact kind
                    for pos in 0..arity {
                        for k in 0..KINDS.len() {
                            let mut kinds: Vec<usize> = (0..arity).map(|p| exact_kind((rot + p) % 8)).collect();
                            kinds[pos] = k;
                            v.push(TCase { arity, rot, kinds, path, depth });
                        }
                    }
                }
            }
        }
    }
    v
}

/// a supplied kind that converts exactly to the type
fn exact_kind(ty: usize) -> usize {
    match ty {
        0 => 1,
        1 => 1,
        2 => 2,
        3 => 3,
        4 | 5 => 4,
        6 => 0,
        _ => 1,
    }
}

fn program(c: &TCase) -> Module {
    let name = if c.arity == 0 { "t0".to_string() } else { format!("t{}_{}", c.arity, c.rot) };
    let args: Vec<C> = c.kinds.iter().map(|k| supplied(*k)).collect();
    let the_call = match c.path {
        0 => native(&name, args),
        1 => C::DynCall(b(C::NativeFunction(name.clone())), args),
        _ => native("via_run_function", vec![C::NativeFunction(name.clone()), args[0].clone()]),
    };
    let site = vec![
        sv("canary", int(5)),
        sv("tab", C::CreateTable),
        C::SetProperty(b(int(1)), b(rv("tab")), b(s("a"))),
        C::SetProperty(b(int(2)), b(rv("tab")), b(s("b"))),
        sg("res", the_call),
        sg("canary_after", rv("canary")),
        sg("tab_len_after", C::Len(b(rv("tab")))),
    ];
    let helper = ("helper", func(&[], vec![C::Return(b(int(1)))]));
    match c.depth {
        0 => module(vec![("main", func(&[], site)), helper]),
        1 => module(vec![("main", func(&[], vec![sv("outer", int(1)), sg("_sink", call("site", vec![int(3)])), sg("outer_after", rv("outer"))])), ("site", func(&["q"], site)), helper]),
        _ => module(vec![
            ("main", func(&[], vec![sv("outer", int(1)), sg("_sink", call("mid", vec![int(3)])), sg("outer_after", rv("outer"))])),
            ("mid", func(&["m"], vec![sv("ml", int(2)), sg("_sink", call("site", vec![rv("m")])), sg("ml_after", rv("ml"))])),
            ("site", func(&["q"], site)),
            helper,
        ]),
    }
}

fn run_tcase(c: &TCase) -> Option<(String, String)> {
    let m = program(c);
    let prog = match compile(lower::module(&m), CompileOptions::new()) {
        Ok(p) => p,
        Err(e) => return Some(("typed:compile".into(), format!("{c:?}: {e}"))),
    };
    let mut vm: Vm<H> = Vm::new(H::default()).unwrap();
    register(&mut vm);
    let r = vm.run(&prog);
    let types: Vec<usize> = (0..c.arity).map(|p| (c.rot + p) % 8).collect();
    let exps: Vec<Expect> = types.iter().zip(c.kinds.iter()).map(|(t, k)| expect(*t, *k)).collect();
    let label = format!("{} parameter types {:?} supplied {:?} path {} depth {}", if c.arity == 0 { "t0".into() } else { format!("t{}_{}", c.arity, c.rot) }, types.iter().map(|t| TYPE_NAMES[*t]).collect::<Vec<_>>(), c.kinds.iter().map(|k| KINDS[*k]).collect::<Vec<_>>(), c.path, c.depth);
    let must_reject: Vec<usize> = exps.iter().enumerate().filter(|(_, e)| **e == Expect::Reject).map(|(i, _)| i + 1).collect();
    let calls = &vm.auxiliary_data.calls;
    let g = |n: &str| vm.read_var_by_name(n, &prog.variables);
    if let Some(n) = vm.auxiliary_data.notes.first() {
        return Some((format!("typed:stacks-after-run_function:{}", if r.is_ok() { "ok" } else { "failed" }), format!("{label}: {n}")));
    }
    match r {
        Ok(()) => {
            if !must_reject.is_empty() {
                return Some((format!("typed:accepted-bad-argument:{}", TYPE_NAMES[types[must_reject[0] - 1]]), format!("{label}: parameter #{} cannot be converted, yet the call succeeded", must_reject[0])));
            }
            if calls.len() != 1 {
                return Some(("typed:call-count".into(), format!("{label}: the host function ran {} times", calls.len())));
            }
            for (i, e) in exps.iter().enumerate() {
                let got = &calls[0].1[i];
                let ok = match e {
                    Expect::Exactly(s) | Expect::Either(s) => s == got,
                    Expect::Reject => false,
                };
                if !ok {
                    return Some((format!("typed:received:{}:{}", TYPE_NAMES[types[i]], KINDS[c.kinds[i]]), format!("{label}: parameter #{} received {got:?}, expected {e:?} (all received: {:?})", i + 1, calls[0].1)));
                }
            }
            if g("res") != Some(Value::Integer(1000 + c.arity as i64)) {
                return Some(("typed:result".into(), format!("{label}: the call card's value is {:?}", g("res"))));
            }
            if g("canary_after") != Some(Value::Integer(5)) || g("tab_len_after") != Some(Value::Integer(2)) {
                return Some(("typed:caller-state".into(), format!("{label}: caller locals after the call: canary {:?}, table length {:?}", g("canary_after"), g("tab_len_after"))));
            }
            if c.depth >= 1 && g("outer_after") != Some(Value::Integer(1)) {
                return Some(("typed:outer-state".into(), format!("{label}: outer local after the call: {:?}", g("outer_after"))));
            }
            None
        }
        Err(e) => {
            // a rejection: allowed for Reject and Either positions only, must be a task failure
            // of this function whose inner error is InvalidArgument naming such a position
            let rejectable: Vec<usize> = exps.iter().enumerate().filter(|(_, e)| !matches!(e, Expect::Exactly(_))).map(|(i, _)| i + 1).collect();
            let fname = if c.arity == 0 { "t0".to_string() } else { format!("t{}_{}", c.arity, c.rot) };
            let mut payload = &e.payload;
            // unwrap the outer host function of path 2
            if c.path == 2 {
                match payload {
                    ExecutionErrorPayload::TaskFailure { name, error } if name == "via_run_function" => payload = error,
                    other => return Some(("typed:error-wrapping".into(), format!("{label}: expected TaskFailure(via_run_function: ..), got {other}"))),
                }
            }
            match payload {
                ExecutionErrorPayload::TaskFailure { name, error } if *name == fname => match &**error {
                    ExecutionErrorPayload::InvalidArgument { context } => {
                        let ctx = context.clone().unwrap_or_default();
                        let named: Option<usize> = ctx.split('#').nth(1).and_then(|r| r.chars().take_while(|c| c.is_ascii_digit()).collect::<String>().parse().ok());
                        if rejectable.is_empty() {
                            return Some((format!("typed:rejected-exact:{}", named.map(|n| TYPE_NAMES[types[(n - 1).min(types.len() - 1)]]).unwrap_or("?")), format!("{label}: every argument has exactly the declared kind, yet: {ctx}")));
                        }
                        match named {
                            Some(n) if rejectable.contains(&n) => None,
                            other => Some(("typed:wrong-position-named".into(), format!("{label}: the error names position {other:?} ({ctx}); positions that may be rejected: {rejectable:?}"))),
                        }
                    }
                    other => Some(("typed:error-kind".into(), format!("{label}: inner error {other}"))),
                },
                other => Some(("typed:error-wrapping".into(), format!("{label}: expected TaskFailure({fname}: InvalidArgument), got {other}"))),
            }
        }
    }
}

fn reserved_names() -> Option<(String, String)> {
    let mut vm: Vm<H> = Vm::new(H::default()).unwrap();
    for n in ["__min", "__max", "__sort", "__to_array", "__anything", "__"] {
        if vm.register_native_function(n, t0 as fn(&mut Vm<H>) -> HR).is_ok() {
            return Some(("reserved-name-accepted".into(), format!("register_native_function({n:?}) succeeded; names starting with __ are reserved for the library")));
        }
    }
    for n in ["_single", "a__b", "min", "x"] {
        if vm.register_native_function(n, t0 as fn(&mut Vm<H>) -> HR).is_err() {
            return Some(("plain-name-rejected".into(), format!("register_native_function({n:?}) failed")));
        }
    }
    None
}

/// A name registered again designates the function registered last (register_native_function
/// reports success): for every pair of arities, registered twice before a run or re-registered
/// between two runs on one VM, through a CallNative card and a native function value.
fn reregistration() -> Vec<(String, String)> {
    fn reg(vm: &mut Vm<H>, arity: usize) -> bool {
        match arity {
            0 => vm.register_native_function("dup", t0 as fn(&mut Vm<H>) -> HR),
            1 => vm.register_native_function("dup", into_f1(t1::<Value>)),
            2 => vm.register_native_function("dup", into_f2(t2::<Value, i64>)),
            3 => vm.register_native_function("dup", into_f3(t3::<Value, i64, f64>)),
            _ => vm.register_native_function("dup", into_f4(t4::<Value, i64, f64, &'static str>)),
        }
        .is_ok()
    }
    fn prog(arity: usize, path: usize) -> Module {
        let args: Vec<C> = (0..arity).map(|p| supplied(exact_kind(p))).collect();
        let the_call = if path == 0 { native("dup", args) } else { C::DynCall(b(C::NativeFunction("dup".into())), args) };
        module(vec![("main", func(&[], vec![sv("canary", int(5)), sg("res", the_call), sg("canary_after", rv("canary"))]))])
    }
    let mut out = Vec::new();
    for old in 0..=4usize {
        for new in 0..=4usize {
            for path in 0..2usize {
                for between_runs in [false, true] {
                    let label = format!("`dup` registered with {old} parameters, then with {new} ({}), path {path}", if between_runs { "after a run that called the first one" } else { "before the first run" });
                    let mut vm: Vm<H> = Vm::new(H::default()).unwrap();
                    if !reg(&mut vm, old) {
                        out.push(("reregister:first-failed".to_string(), label));
                        continue;
                    }
                    if between_runs {
                        let p = compile(lower::module(&prog(old, path)), CompileOptions::new()).expect("compile");
                        if let Err(e) = vm.run(&p) {
                            out.push(("reregister:first-run".to_string(), format!("{label}: {}", e.payload)));
                            continue;
                        }
                        vm.auxiliary_data.calls.clear();
                    }
                    if !reg(&mut vm, new) {
                        out.push(("reregister:rejected".to_string(), format!("{label}: the second registration failed")));
                        continue;
                    }
                    let p = compile(lower::module(&prog(new, path)), CompileOptions::new()).expect("compile");
                    let r = vm.run(&p);
                    let names: Vec<String> = vm.auxiliary_data.calls.iter().map(|c| c.0.split('_').next().unwrap_or("").to_string()).collect();
                    let res = vm.read_var_by_name("res", &p.variables);
                    let canary = vm.read_var_by_name("canary_after", &p.variables);
                    if r.is_err() || names != vec![format!("t{new}")] || res != Some(Value::Integer(1000 + new as i64)) || canary != Some(Value::Integer(5)) {
                        out.push(("reregister:old-function-called".to_string(), format!("{label}: result {:?}, host functions that ran {names:?} with {:?}, call value {res:?}, caller local {canary:?}", r.as_ref().map_err(|e| e.payload.to_string()), vm.auxiliary_data.calls.iter().map(|c| c.1.clone()).collect::<Vec<_>>())));
                    }
                }
            }
        }
    }
    out
}

// ---- (b) re-entry -------------------------------------------------------------------------------

static FAMS: OnceLock<Vec<Box<dyn Family>>> = OnceLock::new();

pub fn families(_tier: Tier) -> &'static Vec<Box<dyn Family>> {
    FAMS.get_or_init(|| vec![Box::new(FReenter), Box::new(FTryCall)])
}

static JUDGE: SemJudge = SemJudge { property: "C18", opts: RegionOpts { inline_array: false } };

const TCHUNK: usize = 500;

/// A host function that handles the error of `run_function`, called at every recursion depth up
/// to the call-stack limit: whether the callback fits, fails on its first or on its second frame,
/// every level of the recursion continues exactly once after the call.
fn deep_try_call(n: i64, host: &str, failing: bool) -> Option<(String, String)> {
    let add = |a: C, c: C| bin(BinOp::Add, a, c);
    let mut args = vec![C::Function("cb".into())];
    if host != "try_call" {
        args.push(int(11));
    }
    let params: Vec<&str> = if host == "try_call" { vec![] } else { vec!["p"] };
    let cb_body = if failing { vec![sv("l", int(1)), sg("_sink", C::GetProperty(b(int(1)), b(int(2)))), C::Return(b(int(7)))] } else { vec![sv("l", int(1)), C::Return(b(int(7)))] };
    let m = module(vec![
        ("main", func(&[], vec![sg("count", int(0)), sg("r", call("rec", vec![int(0)]))])),
        (
            "rec",
            func(
                &["k"],
                vec![
                    sv("mine", add(rv("k"), int(1000))),
                    C::IfElse(b(bin(BinOp::Less, rv("k"), int(n))), b(sv("x", call("rec", vec![add(rv("k"), int(1))]))), b(sv("x", native(host, args)))),
                    sg("count", add(rv("count"), int(1))),
                    C::IfFalse(b(bin(BinOp::Equals, rv("mine"), add(rv("k"), int(1000)))), b(sg("damaged", rv("k")))),
                    C::Return(b(rv("k"))),
                ],
            ),
        ),
        ("cb", func(&params, cb_body)),
    ]);
    let (co, prog) = crate::realrun::compile_real(&m);
    let (crate::realrun::CompileOutcome::Ok, Some(prog)) = (co, prog) else { return Some(("deep-try-call:compile".into(), "does not compile".into())) };
    let got = crate::realrun::run_program(&m, &prog, &cvx_core::refsem::default_natives(), &crate::realrun::RunCfg { stack: 8192, ..Default::default() });
    if let Some(p) = &got.panic {
        return Some(("deep-try-call:panic".into(), format!("depth {n}, host {host}: {p}")));
    }
    if std::env::var("CVX_C18_SHOW").is_ok() {
        eprintln!("C18SHOW n={n} host={host} failing={failing} result={} count={:?}", got.result, got.globals.get("count").map(|o| o.short()));
    }
    if got.result != "Ok" {
        // main + n+1 levels of rec need n+2 frames of the 256: beyond that the recursion itself
        // does not fit, which is not this check's business; below it the run has to succeed,
        // whatever happens to the callback
        if n + 2 > 256 && got.result == "CallStackOverflow" {
            return None;
        }
        return Some((format!("deep-try-call:result:{}", got.result), format!("recursion depth {n} (fits the call stack), host function {host}, callee {}: the run ends with {} although the host function handles the callback's failure", if failing { "failing" } else { "returning" }, got.result)));
    }
    let count = got.globals.get("count").map(|o| o.short()).unwrap_or_default();
    if count != format!("{}", n + 1) || got.globals.contains_key("damaged") {
        return Some(("deep-try-call:continuation".into(), format!("recursion depth {n}, host function {host}, callee {}: the run ends Ok with count = {count} (every one of the {} levels continues exactly once after its call) and damaged = {:?}", if failing { "failing" } else { "returning" }, n + 1, got.globals.get("damaged").map(|o| o.short()))));
    }
    None
}

impl Check for C18 {
    fn id(&self) -> &'static str {
        "C18"
    }
    fn info(&self, tier: Tier) -> CheckInfo {
        CheckInfo {
            rule: format!("(d) a host function that handles the error of run_function (careful / naive about its pushed argument, returning / failing callee) called at every recursion depth 0..256, i.e. with every number of free call frames down to 0: every level of the recursion continues exactly once and keeps its locals. (a) typed parameters: natives of arity 0..4 whose parameter types are the 8 rotations of [Value, i64, f64, &str, &CaoLangTable, *mut CaoLangTable, Nilable<i64>, bool] (every position sees every type), called with every supplied kind (nil, int, real, string, table, function; all 6^k combinations for k <= 2, one varying position for k = 3, 4) through a CallNative card, a native function value + dynamic call and a host function's run_function, at call depth 0, 1 and 2 ({} cases): received parameters in declaration order per the conversion table (exact-kind conversions unchanged; a conversion that must fail -> TaskFailure(name: InvalidArgument naming a rejectable position); coercing conversions = the coercion or a rejection), the call card's value, caller locals and outer locals intact; names starting with __ cannot be registered; a name registered a second time (every pair of arities 0..4, before the first run or between two runs on one VM, CallNative card and native function value) designates the function registered last. (b) F-reenter ({} programs): host function pushing 0..2 arguments and calling run_function on a script function / closure capturing a caller variable / native function value / non-function / library function, callee body returning plainly, early, falling off, erroring, recursing through the host function to depth 3, returning from inside a loop; call site in main / callee / loop, result used as statement value, operand above a live temporary, new local; reference outcome + value-stack height and call-stack depth equal before and after every successful run_function (checked inside the host function through the hook accessors). 'states' = distinct reference outcomes (b) / cases (a)", tcases().len(), progcheck::total_cases(families(tier))),
            bound: "full product as described".into(),
            exhaustive: true,
            assumptions: vec!["coercing conversions (anything to i64/f64/bool, non-nil to Nilable) may yield the coercion or be rejected: the statement documents no more".into()],
            explanation: "natives are registered through the public register_native_function / into_f1..4 API on a real Vm".into(),
        }
    }
    fn units(&self, tier: Tier) -> u64 {
        tcases().len().div_ceil(TCHUNK) as u64 + 1 + progcheck::units_of(families(tier))
    }
    fn unit_timeout_s(&self, _tier: Tier) -> u64 {
        60
    }
    fn run_unit(&self, tier: Tier, unit: u64, out: &mut ChunkResult) {
        let cases = tcases();
        let nt = cases.len().div_ceil(TCHUNK) as u64;
        if unit < nt {
            let lo = unit as usize * TCHUNK;
            for (i, c) in cases.iter().enumerate().skip(lo).take(TCHUNK) {
                cvx_core::engine::trace_case(|| json!({"typed_case": i}));
                out.evaluations += 1;
                out.traces += 1;
                out.transitions += 1;
                let r = std::panic::catch_unwind(|| run_tcase(c));
                match r {
                    Ok(None) => {
                        out.states += 1;
                        out.nontrivial += 1;
                        out.outcome(format!("arity{} path{}", c.arity, c.path));
                        if i % 300 == 0 {
                            out.sample(|| json!(format!("{c:?}")));
                        }
                    }
                    Ok(Some((k, w))) => out.violation(Violation::new("C18", k, w, json!({"typed_case": i}))),
                    Err(p) => out.violation(Violation::new("C18", "typed:panic", cvx_core::engine::panic_message(&p), json!({"typed_case": i}))),
                }
            }
        } else if unit == nt {
            out.evaluations += 1;
            if let Some((k, w)) = reserved_names() {
                out.violation(Violation::new("C18", k, w, json!({"reserved_names": true})));
            }
            for (k, w) in reregistration() {
                out.violation(Violation::new("C18", k, w, json!({"reregistration": true})));
            }
            out.evaluations += 100;
            for n in 0..=256i64 {
                for host in ["try_call", "try_call1", "try_call1_keep"] {
                    for failing in [false, true] {
                        out.evaluations += 1;
                        out.traces += 1;
                        match deep_try_call(n, host, failing) {
                            None => out.nontrivial += 1,
                            Some((k, w)) => out.violation(Violation::new("C18", k, w, json!({"deep_try_call": [n, host, failing]}))),
                        }
                    }
                }
            }
            out.outcome("deep try_call sweep".to_string());
        } else {
            progcheck::run_unit(&JUDGE, families(tier), tier, unit - nt - 1, out)
        }
    }
    fn replay(&self, case: &J) -> Option<Violation> {
        if let Some(i) = case["typed_case"].as_u64() {
            let cases = tcases();
            return run_tcase(cases.get(i as usize)?).map(|(k, w)| Violation::new("C18", k, w, case.clone()));
        }
        if let Some(a) = case["deep_try_call"].as_array() {
            let host: &'static str = match a[1].as_str()? {
                "try_call" => "try_call",
                "try_call1" => "try_call1",
                _ => "try_call1_keep",
            };
            return deep_try_call(a[0].as_i64()?, host, a[2].as_bool()?).map(|(k, w)| Violation::new("C18", k, w, case.clone()));
        }
        if case["reserved_names"].as_bool() == Some(true) {
            return reserved_names().map(|(k, w)| Violation::new("C18", k, w, case.clone()));
        }
        if case["reregistration"].as_bool() == Some(true) {
            return reregistration().into_iter().next().map(|(k, w)| Violation::new("C18", k, w, case.clone()));
        }
        progcheck::replay(&JUDGE, case)
    }
}

#[allow(dead_code)]
fn _u(_: ir::Module) {}
