//! C05 — the memory limit is enforced and garbage is reclaimed.
//!
//! Shadow ledger fed by the allocator hooks (every alloc / dealloc / failed alloc event of the
//! real VM allocator), limit sweeps (which allocation is the first that does not fit is decided
//! by the limit, the way real failures arise), an independent reachability traversal after forced
//! collections, and the OOM discipline: a limit at or above the program's peak of (live after a
//! collection + request) must never produce OutOfMemory.

use crate::realrun::{self, CompileOutcome, Host, RunCfg};
use cao_lang::prelude::*;
use cao_lang::verif::{self, AllocEventKind};
use cvx_core::engine::{Check, CheckInfo, ChunkResult, Tier, Violation};
use cvx_core::ir::{self, *};
use cvx_core::refsem;
use serde_json::{json, Value as J};
use std::cell::RefCell;
use std::collections::{BTreeMap, BTreeSet};
use std::rc::Rc;

pub struct C05;

fn add(a: C, c: C) -> C {
    bin(BinOp::Add, a, c)
}

/// programs in which everything live is rooted in a global or a local of main *at every
/// allocation* (fresh objects are bound to a global before they are used as operands of an
/// allocating card: operands popped by an allocating instruction are C02's open findings)
pub fn programs() -> Vec<(String, Module)> {
    let mut v = Vec::new();
    let lit = "a string literal of about sixty bytes, allocated on every iteration";
    for k in [10i64, 1000, 50_000] {
        v.push((format!("string-churn-{k}"), module(vec![("main", func(&[], vec![C::Repeat { n: b(int(k)), i: None, body: b(sg("s", s(lit))) }, sg("done", int(1))]))])));
        v.push((format!("table-churn-{k}"), module(vec![("main", func(&[], vec![C::Repeat { n: b(int(k)), i: Some("i".into()), body: b(comp(vec![sg("t", C::CreateTable), C::Append(b(rv("i")), b(rv("t")))])) }, sg("done", int(1))]))])));
        v.push((format!("closure-churn-{k}"), module(vec![("main", func(&[], vec![sv("x", int(1)), C::Repeat { n: b(int(k)), i: None, body: b(sg("c", C::Closure(vec![], vec![C::Return(b(rv("x")))]))) }, sg("done", int(1))]))])));
        v.push((format!("function-churn-{k}"), module(vec![("main", func(&[], vec![C::Repeat { n: b(int(k)), i: None, body: b(sg("f", C::Function("one".into()))) }, sg("done", int(1))])), ("one", func(&[], vec![C::Return(b(int(1)))]))])));
    }
    // multi-byte UTF-8 payloads (byte length != character count)
    let utf = "überlänge – ünïcödé 🔥🔥🔥 payload with multi-byte characters €€€";
    for k in [10i64, 1000] {
        v.push((format!("utf8-string-churn-{k}"), module(vec![("main", func(&[], vec![C::Repeat { n: b(int(k)), i: None, body: b(sg("s", s(utf))) }, sg("done", int(1))]))])));
    }
    v.push((
        "utf8-table-of-strings-200".into(),
        module(vec![("main", func(&[], vec![sg("t", C::CreateTable), C::Repeat { n: b(int(200)), i: Some("i".into()), body: b(comp(vec![sg("v", s(utf)), C::SetProperty(b(rv("v")), b(rv("t")), b(rv("i"))), sg("junk", s("ää"))])) }, sg("len", C::Len(b(rv("t"))))]))]),
    ));
    for k in [10i64, 200, 3000] {
        v.push((format!("growing-table-{k}"), module(vec![("main", func(&[], vec![sg("t", C::CreateTable), C::Repeat { n: b(int(k)), i: Some("i".into()), body: b(C::Append(b(rv("i")), b(rv("t")))) }, sg("len", C::Len(b(rv("t"))))]))])));
        v.push((
            format!("table-of-strings-{k}"),
            module(vec![("main", func(&[], vec![sg("t", C::CreateTable), C::Repeat { n: b(int(k)), i: Some("i".into()), body: b(comp(vec![sg("v", s("value string")), C::SetProperty(b(rv("v")), b(rv("t")), b(rv("i"))), sg("junk", s(lit))])) }, sg("len", C::Len(b(rv("t"))))]))]),
        ));
    }
    // one object as key and as value of a new entry; an entry overwritten with itself
    for k in [10i64, 400] {
        v.push((
            format!("same-key-and-value-churn-{k}"),
            module(vec![("main", func(&[], vec![C::Repeat { n: b(int(k)), i: None, body: b(comp(vec![sg("sk", s(lit)), sg("t", C::CreateTable), C::SetProperty(b(rv("sk")), b(rv("t")), b(rv("sk"))), C::SetProperty(b(rv("sk")), b(rv("t")), b(rv("sk"))), C::SetProperty(b(rv("t")), b(rv("t")), b(int(1)))])) }, sg("done", int(1))]))]),
        ));
    }
    // empty strings: a zero-length payload is still a charged allocation
    for k in [10i64, 3000] {
        v.push((format!("empty-string-churn-{k}"), module(vec![("main", func(&[], vec![C::Repeat { n: b(int(k)), i: None, body: b(comp(vec![sg("e", s("")), sg("t", C::CreateTable), C::SetProperty(b(s("")), b(rv("t")), b(s("")))])) }, sg("done", int(1))]))])));
    }
    // sorting by a key function that returns one and the same object for every row
    for k in [10i64, 300] {
        v.push((
            format!("sort-by-shared-key-churn-{k}"),
            module(vec![
                (
                    "main",
                    func(
                        &[],
                        vec![
                            C::Repeat {
                                n: b(int(k)),
                                i: None,
                                body: b(comp(vec![sg("shared", s(lit)), sg("t", C::CreateTable), C::Append(b(int(2)), b(rv("t"))), C::Append(b(int(1)), b(rv("t"))), C::Append(b(int(3)), b(rv("t"))), sg("r", call("std.sorted_by_key", vec![C::Function("kf".into()), rv("t")]))])),
                            },
                            sg("done", int(1)),
                        ],
                    ),
                ),
                ("kf", func(&["key", "value"], vec![C::Return(b(rv("shared")))])),
            ]),
        ));
    }
    // replacing a large live structure: the old one becomes garbage
    v.push((
        "replace-big-table".into(),
        module(vec![(
            "main",
            func(
                &[],
                vec![C::Repeat {
                    n: b(int(40)),
                    i: None,
                    body: b(comp(vec![sg("t", C::CreateTable), C::Repeat { n: b(int(300)), i: Some("j".into()), body: b(comp(vec![sg("v", s("payload payload payload")), C::SetProperty(b(rv("v")), b(rv("t")), b(rv("j")))])) }])),
                }, sg("done", int(1))],
            ),
        )]),
    ));
    v
}

#[derive(Default)]
struct Ledger {
    outstanding: BTreeMap<usize, (usize, usize)>,
    sum: usize,
    peak: usize,
    errors: Vec<(String, String)>,
    events: u64,
    failed: u64,
    gcs_seen: u64,
    /// allocated_after of successful allocations (used for peak measurement under forced gc)
    max_after_alloc: usize,
    /// charge of the request being served (the allocator may collect while it is pending)
    in_flight: usize,
}

/// What the allocator charges for one block: its size, or size + alignment (today's policy).
/// Probed once on a scratch VM, so that the ledger does not depend on which of the two the crate
/// uses - only on the policy being the same for every block, charge and refund.
fn charge_includes_align() -> bool {
    static POLICY: std::sync::OnceLock<bool> = std::sync::OnceLock::new();
    *POLICY.get_or_init(|| {
        verif::reset();
        let seen: Rc<RefCell<Option<(usize, usize, usize)>>> = Rc::new(RefCell::new(None));
        let s2 = seen.clone();
        verif::set_on_alloc(Some(Box::new(move |ev| {
            if matches!(ev.kind, AllocEventKind::Alloc) && s2.borrow().is_none() {
                *s2.borrow_mut() = Some((ev.size, ev.align, ev.allocated_after));
            }
        })));
        let mut vm: Vm<()> = Vm::new(()).unwrap();
        let _ = vm.init_string("probe");
        drop(vm);
        verif::set_on_alloc(None);
        verif::reset();
        let got = *seen.borrow();
        match got {
            Some((size, _, after)) if after == size => false,
            Some((size, align, after)) if after == size + align => true,
            other => cvx_core::engine::machinery_error(&format!("cannot determine the allocator's charging policy from the first allocation: {other:?}")),
        }
    })
}

fn install_ledger() -> Rc<RefCell<Ledger>> {
    let with_align = charge_includes_align();
    let ledger = Rc::new(RefCell::new(Ledger::default()));
    let l2 = ledger.clone();
    verif::set_on_alloc(Some(Box::new(move |ev| {
        let mut l = l2.borrow_mut();
        l.events += 1;
        let charge = if with_align { ev.size + ev.align } else { ev.size };
        let mut pending: Vec<(String, String)> = Vec::new();
        let mut err = |k: &str, w: String| pending.push((k.to_string(), w));
        match ev.kind {
            AllocEventKind::Request => {
                if ev.allocated_after != l.sum {
                    let (a, s_) = (ev.allocated_after, l.sum);
                    err("accounting/before-alloc", format!("when allocation #{} is requested the counter is {a}, outstanding charges sum to {s_}", ev.seq));
                }
                l.in_flight = charge;
            }
            AllocEventKind::Alloc => {
                l.in_flight = 0;
                if l.outstanding.insert(ev.ptr, (ev.size, ev.align)).is_some() {
                    err("ledger/pointer-reused-while-live", format!("allocation #{} returned a pointer that is still outstanding", ev.seq));
                }
                l.sum += charge;
                if ev.allocated_after != l.sum {
                    let (a, s_) = (ev.allocated_after, l.sum);
                    err("accounting/after-alloc", format!("after allocation #{} of {} bytes the counter is {a}, outstanding charges sum to {s_}", ev.seq, ev.size));
                }
                if ev.allocated_after > ev.limit {
                    let a = ev.allocated_after;
                    err("limit/exceeded", format!("allocation #{} succeeded with counter {a} above the limit {}", ev.seq, ev.limit));
                }
                l.peak = l.peak.max(l.sum);
                l.max_after_alloc = l.max_after_alloc.max(ev.allocated_after);
            }
            AllocEventKind::Failed => {
                l.in_flight = 0;
                l.failed += 1;
                if ev.allocated_after != l.sum {
                    let (a, s_) = (ev.allocated_after, l.sum);
                    err("accounting/after-failed-alloc", format!("after the failed allocation #{} ({} bytes) the counter is {a}, outstanding charges sum to {s_}", ev.seq, ev.size));
                }
            }
            AllocEventKind::Dealloc => {
                match l.outstanding.remove(&ev.ptr) {
                    Some((s_, a)) => {
                        if (s_, a) != (ev.size, ev.align) {
                            err("dealloc/layout", format!("block allocated with ({s_},{a}) released with ({},{})", ev.size, ev.align));
                        }
                        l.sum -= if with_align { s_ + a } else { s_ };
                    }
                    None => err("dealloc/unknown-pointer", "release of a pointer that is not outstanding".to_string()),
                }
                // a collection started by the allocator runs while the request is already charged
                if ev.allocated_after != l.sum && ev.allocated_after != l.sum + l.in_flight {
                    let (a, s_) = (ev.allocated_after, l.sum);
                    err("accounting/after-dealloc", format!("after a release of {} bytes the counter is {a}, outstanding charges sum to {s_}", ev.size));
                }
            }
        }
        for e in pending {
            if l_errors_len(&l) < 5 {
                l.errors.push(e);
            }
        }
    })));
    ledger
}

fn l_errors_len(l: &Ledger) -> usize {
    l.errors.len()
}

/// objects reachable from the roots, computed from the hook's object views (independent of gc())
fn reachable(vm: &Vm<Host>) -> (BTreeSet<usize>, BTreeSet<usize>) {
    let rt = &vm.runtime_data;
    let objs = verif::objects(rt);
    let by_addr: BTreeMap<usize, &verif::ObjView> = objs.iter().map(|o| (o.addr, o)).collect();
    let mut seen: BTreeSet<usize> = BTreeSet::new();
    let mut work: Vec<usize> = Vec::new();
    let mut root = |v: &Value| {
        if let Value::Object(o) = v {
            work.push(o.as_ptr() as usize);
        }
    };
    for v in verif::stack(rt).iter() {
        root(v);
    }
    for v in verif::globals(rt).iter() {
        root(v);
    }
    for f in verif::frames(rt) {
        if let Some(c) = f.closure_obj {
            work.push(c);
        }
    }
    if let Ok(list) | Err(list) = verif::open_upvalues(rt) {
        work.extend(list);
    }
    for o in objs.iter() {
        if o.marker == 3 {
            work.push(o.addr);
        }
    }
    while let Some(a) = work.pop() {
        if !seen.insert(a) {
            continue;
        }
        if let Some(o) = by_addr.get(&a) {
            work.extend(o.children.iter().copied());
        }
    }
    let live: BTreeSet<usize> = objs.iter().filter(|o| !o.dead).map(|o| o.addr).collect();
    (seen, live)
}

struct RunReport {
    result: String,
    ledger: Rc<RefCell<Ledger>>,
    after_clear: (usize, usize),
    gc_mismatch: Option<String>,
}

/// one run with the ledger installed; `force_all`: collect at every allocation (peak measurement
/// and reachability audit)
fn ledger_run(m: &Module, prog: &CaoCompiledProgram, limit: usize, force_all: bool, history: &[&str]) -> RunReport {
    verif::reset();
    let natives = refsem::default_natives();
    let cfg = RunCfg { max_instr: 50_000_000, mem_limit: limit, stack: 256, call_stack: 256 };
    let mut vm = realrun::new_vm(m, &natives, &cfg);
    if cfg.mem_limit == 400 * 1024 {
        // new_vm keeps the default runtime for the default limit
    }
    let ledger = install_ledger();
    if force_all {
        verif::set_force_gc(Some(Box::new(|_| true)));
    }
    let gc_mismatch: Rc<RefCell<Option<String>>> = Rc::new(RefCell::new(None));
    let mut result = String::new();
    let mut after_clear = (0usize, 0usize);
    for step in history {
        match *step {
            "run" => {
                let gcs_before = verif::gc_count();
                let r = vm.run(prog);
                result = match &r {
                    Ok(()) => "Ok".to_string(),
                    Err(e) => realrun::payload_kind(&e.payload),
                };
                // no guard can be alive once the run has returned
                let guarded = verif::objects(&vm.runtime_data).iter().filter(|o| o.marker == 3 && !o.dead).count();
                if guarded > 0 {
                    *gc_mismatch.borrow_mut() = Some(format!("{guarded} object(s) are still marked as guarded after the run returned: no collection will ever reclaim them"));
                }
                if verif::gc_count() > gcs_before || force_all {
                    // after the run: everything in the object list must be reachable or guarded,
                    // everything reachable must be in the list
                    verif::set_force_gc(None);
                    vm.runtime_data.gc();
                    let (reach, live) = reachable(&vm);
                    let garbage: Vec<&usize> = live.difference(&reach).collect();
                    let lost: Vec<&usize> = reach.difference(&live).collect();
                    if !garbage.is_empty() {
                        *gc_mismatch.borrow_mut() = Some(format!("after a collection {} unreachable object(s) are still in the object list", garbage.len()));
                    }
                    if !lost.is_empty() {
                        *gc_mismatch.borrow_mut() = Some(format!("after a collection {} reachable object(s) are no longer in the object list", lost.len()));
                    }
                    if force_all {
                        verif::set_force_gc(Some(Box::new(|_| true)));
                    }
                }
            }
            _ => {
                vm.clear();
                let c = verif::counters(&vm.runtime_data);
                after_clear = (c.0, ledger.borrow().outstanding.len());
            }
        }
    }
    verif::set_force_gc(None);
    // dropping the VM releases everything
    drop(vm);
    verif::set_on_alloc(None);
    let gm = gc_mismatch.borrow().clone();
    RunReport { result, ledger, after_clear, gc_mismatch: gm }
}

fn limits(tier: Tier) -> Vec<usize> {
    let mut v: Vec<usize> = (0..=128).map(|i| i * 64).collect();
    let mut p = 16 * 1024;
    while p <= 1024 * 1024 {
        v.push(p);
        v.push(p + p / 2);
        p *= 2;
    }
    if tier == Tier::Thorough {
        v.extend((0..400).map(|i| 8192 + i * 160));
    }
    v.sort();
    v.dedup();
    v
}

fn check_program(name: &str, m: &Module, tier: Tier, out: &mut ChunkResult, only_limit: Option<usize>) -> Vec<Violation> {
    let mut vs: Vec<Violation> = Vec::new();
    let (co, prog) = realrun::compile_real(m);
    let (CompileOutcome::Ok, Some(prog)) = (co, prog) else {
        vs.push(Violation::new("C05", "compile", format!("{name} does not compile"), json!({"program": name})));
        return vs;
    };
    let big = 64 << 20;
    // peak of (live after a collection + request): collect at every allocation under a huge limit.
    // (only for the short variants: a collection per allocation is quadratic)
    let short = !name.ends_with("-50000") && !name.ends_with("-3000") && name != "replace-big-table";
    let mut peak: Option<usize> = None;
    if short {
        let rep = ledger_run(m, &prog, big, true, &["run", "clear"]);
        for (k, w) in rep.ledger.borrow().errors.iter() {
            vs.push(Violation::new("C05", format!("{k}:forced-gc"), format!("{name}, collection at every allocation: {w}"), json!({"program": name, "mode": "forced"})));
        }
        if let Some(g) = rep.gc_mismatch {
            vs.push(Violation::new("C05", "collection/object-list-vs-reachable", format!("{name}: {g}"), json!({"program": name, "mode": "forced"})));
        }
        if rep.result != "Ok" {
            vs.push(Violation::new("C05", "forced-gc-run-fails", format!("{name} fails with {} when a collection runs at every allocation", rep.result), json!({"program": name, "mode": "forced"})));
        } else {
            peak = Some(rep.ledger.borrow().max_after_alloc);
        }
        if rep.after_clear != (0, 0) {
            vs.push(Violation::new("C05", "clear/not-zero", format!("{name}: after clear the counter is {} with {} outstanding allocations", rep.after_clear.0, rep.after_clear.1), json!({"program": name, "mode": "forced"})));
        }
    }
    let all_limits = limits(tier);
    let lims: Vec<usize> = match only_limit {
        Some(l) => vec![l],
        None => all_limits,
    };
    for l in lims {
        cvx_core::engine::trace_case(|| json!({"program": name, "limit": l}));
        out.evaluations += 1;
        out.traces += 1;
        let history: &[&str] = if l % 128 == 0 { &["run", "clear", "run", "clear"] } else { &["run", "clear"] };
        let rep = ledger_run(m, &prog, l, false, history);
        let case = json!({"program": name, "limit": l});
        let led = rep.ledger.borrow();
        out.transitions += led.events;
        for (k, w) in led.errors.iter() {
            vs.push(Violation::new("C05", k.clone(), format!("{name}, limit {l}: {w}"), case.clone()));
        }
        if let Some(g) = &rep.gc_mismatch {
            vs.push(Violation::new("C05", "collection/object-list-vs-reachable", format!("{name}, limit {l}: {g}"), case.clone()));
        }
        if rep.after_clear != (0, 0) {
            vs.push(Violation::new("C05", "clear/not-zero", format!("{name}, limit {l}: after clear the counter is {} with {} outstanding allocations", rep.after_clear.0, rep.after_clear.1), case.clone()));
        }
        if !led.outstanding.is_empty() {
            vs.push(Violation::new("C05", "drop/leak", format!("{name}, limit {l}: {} allocations outstanding after the VM was dropped", led.outstanding.len()), case.clone()));
        }
        if led.peak > l && l > 0 {
            vs.push(Violation::new("C05", "limit/peak-exceeded", format!("{name}, limit {l}: outstanding charges peaked at {}", led.peak), case.clone()));
        }
        // OOM discipline
        if let Some(p) = peak {
            if l >= p && rep.result == "OutOfMemory" {
                vs.push(Violation::new("C05", format!("oom-with-garbage:{}", name.rsplit_once('-').map(|x| x.0).unwrap_or(name)), format!("{name}: reachable data plus request never exceeds {p} bytes, yet limit {l} gives OutOfMemory"), case.clone()));
            }
        } else if l >= 256 * 1024 && rep.result == "OutOfMemory" && !name.starts_with("growing") && !name.starts_with("table-of-strings") {
            // the long churn variants keep only a few hundred bytes alive
            vs.push(Violation::new("C05", format!("oom-with-garbage:{}", name.rsplit_once('-').map(|x| x.0).unwrap_or(name)), format!("{name}: live data stays tiny, yet limit {l} gives OutOfMemory"), case.clone()));
        }
        out.outcome(format!("{} failed-allocs:{}", rep.result, if led.failed > 0 { ">0" } else { "0" }));
        if vs.len() > 30 {
            break;
        }
    }
    if vs.is_empty() {
        out.states += 1;
        out.nontrivial += 1;
        out.sample(|| json!({"program": name, "peak_live_plus_request": peak}));
    }
    vs
}

impl Check for C05 {
    fn id(&self) -> &'static str {
        "C05"
    }
    fn info(&self, tier: Tier) -> CheckInfo {
        CheckInfo {
            rule: format!("{} programs whose live data is rooted in globals / locals of main (string incl. multi-byte UTF-8, table, closure, function-pointer churn with 10 / 1000 / 50000 iterations; tables growing to 10 / 200 / 3000 entries; a table of strings next to garbage; one fresh object as key and value of the same entry; replacing a 300-entry table 40 times) x {} memory limits (every multiple of 64 B up to 8 KiB, powers of two and their midpoints up to 1.5 MiB): a shadow ledger fed by the allocator hooks checks at EVERY alloc / dealloc / failed-alloc event that the counter equals the sum of the charges of the outstanding allocations, never exceeds the limit, is unchanged by a failed allocation, and that releases use the layout of the allocation; after clear the counter is 0 and nothing is outstanding (run-clear and run-clear-run-clear histories), after dropping the VM nothing is outstanding; after every run in which a collection ran, a fresh collection is forced and the object list is compared with an independent reachability traversal over the hook's object views (roots: value stack, globals, frame closures, open upvalues, guarded objects), and after every run no object may still carry the guard marker; OOM discipline: peak(P) = max over allocations of (counter after a collection at that allocation + request), measured by a run that collects at every allocation; every limit >= peak(P) must not report OutOfMemory; the long churn programs must complete under every limit >= 256 KiB. 'states' = programs for which every limit held", programs().len(), limits(tier).len()),
            bound: "full product".into(),
            exhaustive: true,
            assumptions: vec!["memory the tables' key vectors and closures' upvalue vectors take from the global allocator is not routed through the VM allocator and is therefore not part of 'accounted'".into(), "which allocation fails is decided by the limit (real failure path); no failure is injected into the VM allocator".into()],
            explanation: "every event comes from the real CaoLangAllocator through the verif-hooks callbacks".into(),
        }
    }
    fn units(&self, _tier: Tier) -> u64 {
        programs().len() as u64
    }
    fn unit_timeout_s(&self, tier: Tier) -> u64 {
        tier.pick(50, 600)
    }
    fn run_unit(&self, tier: Tier, unit: u64, out: &mut ChunkResult) {
        let progs = programs();
        let (name, m) = &progs[unit as usize];
        for v in check_program(name, m, tier, out, None) {
            out.violation(v);
        }
    }
    fn replay(&self, case: &J) -> Option<Violation> {
        let name = case["program"].as_str()?;
        let progs = programs();
        let (_, m) = progs.iter().find(|(p, _)| p == name)?;
        let mut out = ChunkResult::default();
        let l = case["limit"].as_u64().map(|x| x as usize).or(Some(usize::MAX));
        check_program(name, m, Tier::Quick, &mut out, l).into_iter().next()
    }
}

#[allow(dead_code)]
fn _u(_: ir::Module) {}
