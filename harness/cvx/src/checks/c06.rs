//! C06 — closures capture variables by reference with correct identity and lifetime.

use crate::checks::c01::SemJudge;
use crate::progcheck::{self};
use cvx_core::engine::{Check, CheckInfo, ChunkResult, Tier, Violation};
use cvx_core::gen_basic::Family;
use cvx_core::gen_closure::{FClosureArgs, FClosureTwin, FClosure, FClosureNest, FClosureOrder};
use cvx_core::region::RegionOpts;
use serde_json::Value as J;
use std::sync::OnceLock;

pub struct C06;

/// Closures that outlive the *run* that created them. One program, run twice on one VM without a
/// clear; a host function `phase` tells it which run it is in. Run 1 (`first`) stores a closure over
/// a local in a global and ends normally, through Abort or with an error, at call depth 1-3 behind
/// 0-2 other locals; run 2 (`second`) has other locals where those were and calls the stored closure
/// twice. The closure owns its variable: expected values are known by construction.
fn cross_run_cases() -> Vec<(String, cvx_core::ir::Module, Vec<(&'static str, i64)>)> {
    use cvx_core::ir::*;
    let add = |a: C, c: C| bin(BinOp::Add, a, c);
    let reader = C::Closure(vec![], vec![C::Return(b(rv("x")))]);
    let bumper = C::Closure(vec![], vec![sv("x", add(rv("x"), int(1))), C::Return(b(rv("x")))]);
    let mut v = Vec::new();
    for (cname, clo, first, second) in [("read", reader, 7i64, 7i64), ("bump", bumper, 8, 9)] {
        for ending in ["end", "abort", "error"] {
            let tail: Vec<C> = match ending {
                "end" => vec![],
                "abort" => vec![C::Abort],
                _ => vec![sg("_sink", C::GetProperty(b(int(1)), b(int(2))))],
            };
            for depth in 1..4usize {
                for pad in 0..3usize {
                    let mut body: Vec<C> = (0..pad).map(|k| sv(&format!("p{k}"), int(50 + k as i64))).collect();
                    body.push(sv("x", int(7)));
                    body.push(sg("cl", clo.clone()));
                    body.extend(tail.clone());
                    let second_fn = func(&[], vec![sv("a", int(100)), sv("bb", int(200)), sv("c", int(300)), sv("d", int(400)), sg("r1", C::DynCall(b(rv("cl")), vec![])), sg("r2", C::DynCall(b(rv("cl")), vec![])), sg("a_after", rv("a")), sg("d_after", rv("d"))]);
                    let main = func(&[], vec![C::IfElse(b(native("phase", vec![])), b(sg("_sink", call("second", vec![]))), b(sg("_sink", call("first", vec![]))))]);
                    let mut fns = vec![("main", main), ("second", second_fn)];
                    match depth {
                        1 => fns.push(("first", func(&[], body))),
                        2 => {
                            fns.push(("first", func(&[], vec![sv("l", int(2)), sg("_sink", call("inner", vec![]))])));
                            fns.push(("inner", func(&[], body)));
                        }
                        _ => {
                            fns.push(("first", func(&[], vec![sv("l", int(2)), sg("_sink", call("mid", vec![int(3)]))])));
                            fns.push(("mid", func(&["q"], vec![sv("m", int(4)), sg("_sink", call("inner", vec![]))])));
                            fns.push(("inner", func(&[], body)));
                        }
                    }
                    v.push((format!("{cname}/{ending}/depth{depth}/pad{pad}"), module(fns), vec![("r1", first), ("r2", second), ("a_after", 100), ("d_after", 400)]));
                }
            }
        }
    }
    v
}

fn n_phase(vm: &mut cao_lang::prelude::Vm<crate::realrun::Host>) -> Result<cao_lang::prelude::Value, cao_lang::prelude::ExecutionErrorPayload> {
    // the harness marks the second run by leaving one note in the host's own check list
    Ok(cao_lang::prelude::Value::Integer(vm.auxiliary_data.checks.len() as i64))
}

fn cross_run(idx: usize) -> Option<(String, String)> {
    use crate::realrun::{self, CompileOutcome, RunCfg};
    use cvx_core::refsem::{self, Ob};
    let cases = cross_run_cases();
    let (name, m, want) = &cases[idx];
    let natives = refsem::default_natives();
    let p = match realrun::compile_real(m) {
        (CompileOutcome::Ok, Some(p)) => p,
        _ => cvx_core::engine::machinery_error(&format!("C06 cross-run case {name} does not compile")),
    };
    let mut vm = realrun::new_vm(m, &natives, &RunCfg::default());
    if vm.register_native_function("phase", n_phase as fn(&mut cao_lang::prelude::Vm<realrun::Host>) -> Result<cao_lang::prelude::Value, cao_lang::prelude::ExecutionErrorPayload>).is_err() {
        cvx_core::engine::machinery_error("cannot register the phase native");
    }
    let _ = vm.run(&p);
    vm.auxiliary_data.log.clear();
    vm.auxiliary_data.checks.push("second run".into());
    let r = vm.run(&p);
    vm.auxiliary_data.checks.clear();
    let o = realrun::observe_run(&vm, &p, &m.mentioned_names(), &r);
    let kind = name.split('/').take(2).collect::<Vec<_>>().join("/");
    if o.result != "Ok" {
        return Some((format!("cross-run:{kind}:result"), format!("{name}: the second run, which calls the closure the first run stored in a global, ends with {}", o.result)));
    }
    for (g, w) in want {
        let got = o.globals.get(*g).map(|x: &Ob| x.short()).unwrap_or_else(|| "<unset>".into());
        if got != w.to_string() {
            return Some((format!("cross-run:{kind}:{g}"), format!("{name}: after the second run global {g} is {got}, expected {w} (the closure stored by the first run owns its variable x = 7; the second run's locals a..d are its own)")));
        }
    }
    None
}

static FAMS: OnceLock<Vec<Box<dyn Family>>> = OnceLock::new();

pub fn families(_tier: Tier) -> &'static Vec<Box<dyn Family>> {
    FAMS.get_or_init(|| vec![Box::new(FClosureArgs), Box::new(FClosureTwin), Box::new(FClosureNest), Box::new(FClosureOrder), Box::new(FClosure)])
}

static JUDGE: SemJudge = SemJudge { property: "C06", opts: RegionOpts { inline_array: false } };

impl Check for C06 {
    fn id(&self) -> &'static str {
        "C06"
    }
    fn info(&self, tier: Tier) -> CheckInfo {
        let fams = families(tier);
        CheckInfo {
            rule: "F-closure-args: closure literals as callee and as 1..3 arguments of one DynamicCall (immediately invoked closure), in main / in a callee, arguments with / without an inner closure. F-closure-twin: closure expressions at the same card position of 2 or 3 different functions (same module, root and submodule, sibling modules, module and its child, main and a callee; card position 0 / 1; with / without an inner closure; both call orders), each returning its own tag. F-closure-order: two sibling closures of one callee, each referencing every ordered selection of three locals (open upvalues created in every slot order), called in scope, then after the callee returned and its stack area was reused. F-closure-nest: middle closure referencing an ordered selection of {a,b} x inner closure referencing every ordered selection of {a,b,m} (read-sum / write) x main / callee / one more closure level, so that local captures and captures of parent upvalues have differing, overlapping index ranges. F-closure: creation context (main; callee with 0 / 2 arguments and 0 / 2 caller locals; callee at call depth 2; Repeat iteration; ForEach iteration; another closure; callee invoked from a loop) x captured variable (earlier local, parameter, later-declared local, loop variable, variable of the grand-parent, name shadowed by a loop variable) x body action (read, write, read-write, create-and-return an inner closure) x sibling closure sharing the variable x export (global, table field, passed to a function that calls it) x unused-value statement between creation and scope end x root module vs. submodule next to a decoy module with a closure at the same card position. F-cross-run: a closure over a local (reader / incrementing) stored in a global by a first run that ends normally, through Abort or with an error, at call depth 0-2 behind 0-2 other locals, called twice by a second run on the same VM whose own locals occupy the same stack slots (54 two-run cases, expected values by construction). Every closure is called twice inside its scope, twice after the scope ended, once per loop iteration afterwards. Oracle: reference interpreter with by-reference capture (cells), observation = host-call log + globals. 'states' = distinct reference outcomes per chunk".into(),
            bound: format!("families {:?}, {} programs", fams.iter().map(|f| format!("{}={}", f.name(), f.len())).collect::<Vec<_>>(), progcheck::total_cases(fams)),
            exhaustive: true,
            assumptions: vec!["closure nesting depth <= 2 in this family (depth up to 9 is compiled and run under C04)".into()],
            explanation: "every case is compiled and run on the real implementation".into(),
        }
    }
    fn units(&self, tier: Tier) -> u64 {
        progcheck::units_of(families(tier)) + 1
    }
    fn unit_timeout_s(&self, _tier: Tier) -> u64 {
        60
    }
    fn run_unit(&self, tier: Tier, unit: u64, out: &mut ChunkResult) {
        if unit == progcheck::units_of(families(tier)) {
            for i in 0..cross_run_cases().len() {
                out.evaluations += 1;
                out.traces += 1;
                out.transitions += 2;
                match cross_run(i) {
                    None => {
                        out.states += 1;
                        out.nontrivial += 1;
                        out.outcome("cross-run ok".to_string());
                    }
                    Some((k, w)) => out.violation(Violation::new("C06", k, w, serde_json::json!({"kind": "cross-run", "index": i}))),
                }
            }
            return;
        }
        progcheck::run_unit(&JUDGE, families(tier), tier, unit, out)
    }
    fn replay(&self, case: &J) -> Option<Violation> {
        if case["kind"].as_str() == Some("cross-run") {
            return cross_run(case["index"].as_u64()? as usize).map(|(k, w)| Violation::new("C06", k, w, case.clone()));
        }
        progcheck::replay(&JUDGE, case)
    }
}
