//! C06 — closures capture variables by reference with correct identity and lifetime.

use crate::checks::c01::SemJudge;
use crate::progcheck::{self};
use cvx_core::engine::{Check, CheckInfo, ChunkResult, Tier, Violation};
use cvx_core::gen_basic::Family;
use cvx_core::gen_closure::{FClosureArgs, FClosureTwin, FClosure, FClosureNest, FClosureOrder};
use cvx_core::region::RegionOpts;
use serde_json::Value as J;
use std::sync::OnceLock;

pub struct C06;

static FAMS: OnceLock<Vec<Box<dyn Family>>> = OnceLock::new();

pub fn families(_tier: Tier) -> &'static Vec<Box<dyn Family>> {
    FAMS.get_or_init(|| vec![Box::new(FClosureArgs), Box::new(FClosureTwin), Box::new(FClosureNest), Box::new(FClosureOrder), Box::new(FClosure)])
}

static JUDGE: SemJudge = SemJudge { property: "C06", opts: RegionOpts { inline_array: false } };

impl Check for C06 {
    fn id(&self) -> &'static str {
        "C06"
    }
    fn info(&self, tier: Tier) -> CheckInfo {
        let fams = families(tier);
        CheckInfo {
            rule: "F-closure-args: closure literals as callee and as 1..3 arguments of one DynamicCall (immediately invoked closure), in main / in a callee, arguments with / without an inner closure. F-closure-twin: closure expressions at the same card position of 2 or 3 different functions (same module, root and submodule, sibling modules, module and its child, main and a callee; card position 0 / 1; with / without an inner closure; both call orders), each returning its own tag. F-closure-order: two sibling closures of one callee, each referencing every ordered selection of three locals (open upvalues created in every slot order), called in scope, then after the callee returned and its stack area was reused. F-closure-nest: middle closure referencing an ordered selection of {a,b} x inner closure referencing every ordered selection of {a,b,m} (read-sum / write) x main / callee / one more closure level, so that local captures and captures of parent upvalues have differing, overlapping index ranges. F-closure: creation context (main; callee with 0 / 2 arguments and 0 / 2 caller locals; callee at call depth 2; Repeat iteration; ForEach iteration; another closure; callee invoked from a loop) x captured variable (earlier local, parameter, later-declared local, loop variable, variable of the grand-parent, name shadowed by a loop variable) x body action (read, write, read-write, create-and-return an inner closure) x sibling closure sharing the variable x export (global, table field, passed to a function that calls it) x unused-value statement between creation and scope end x root module vs. submodule next to a decoy module with a closure at the same card position. Every closure is called twice inside its scope, twice after the scope ended, once per loop iteration afterwards. Oracle: reference interpreter with by-reference capture (cells), observation = host-call log + globals. 'states' = distinct reference outcomes per chunk".into(),
            bound: format!("families {:?}, {} programs", fams.iter().map(|f| format!("{}={}", f.name(), f.len())).collect::<Vec<_>>(), progcheck::total_cases(fams)),
            exhaustive: true,
            assumptions: vec!["closure nesting depth <= 2 in this family (depth up to 9 is compiled and run under C04)".into()],
            explanation: "every case is compiled and run on the real implementation".into(),
        }
    }
    fn units(&self, tier: Tier) -> u64 {
        progcheck::units_of(families(tier))
    }
    fn unit_timeout_s(&self, _tier: Tier) -> u64 {
        60
    }
    fn run_unit(&self, tier: Tier, unit: u64, out: &mut ChunkResult) {
        progcheck::run_unit(&JUDGE, families(tier), tier, unit, out)
    }
    fn replay(&self, case: &J) -> Option<Violation> {
        progcheck::replay(&JUDGE, case)
    }
}
