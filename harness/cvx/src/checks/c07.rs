//! C07 — tables are insertion-ordered maps keyed by value.
//!
//! Host seam: explicit-state BFS over operation histories on two aliased tables created through
//! a real Vm, compared with a Vec<(key, value)> model after every step. Script seam: every
//! sequence of table cards up to a length, in main / a callee / a closure, against the reference
//! interpreter.

use crate::checks::c01::SemJudge;
use crate::progcheck;
use cao_lang::prelude::*;
use cao_lang::vm::runtime::RuntimeData;
use cvx_core::engine::{Check, CheckInfo, ChunkResult, Tier, Violation};
use cvx_core::gen_basic::Family;
use cvx_core::gen_table::FTable;
use cvx_core::hist::{self, BfsCfg, Diverge, HistSystem};
use cvx_core::region::RegionOpts;
use serde::{Deserialize, Serialize};
use serde_json::{json, Value as J};
use std::sync::OnceLock;

pub struct C07;

// ---- host seam -------------------------------------------------------------------------------------

#[derive(Clone, Copy, Debug, PartialEq, Serialize, Deserialize)]
pub enum K {
    I0,
    I1,
    I2,
    I7,
    R15,
    A1,
    A2,
    B,
    Nil,
}
const KEYS: [K; 9] = [K::I0, K::I1, K::I2, K::I7, K::R15, K::A1, K::A2, K::B, K::Nil];

/// model key: the two "a" string objects are one key
#[derive(Clone, Copy, Debug, PartialEq, Serialize, Deserialize)]
enum MK {
    Int(i64),
    R15,
    A,
    B,
    Nil,
}

#[derive(Clone, Copy, Debug, PartialEq, Serialize, Deserialize)]
pub enum Val {
    N(i64),
    /// reference to table #i
    T(usize),
}

#[derive(Clone, Debug, Serialize, Deserialize)]
pub enum Op {
    Insert(usize, K, Val),
    Append(usize, Val),
    Pop(usize),
    Remove(usize, K),
    /// the table is replaced by its clone (Clone goes through from_iter)
    CloneReplace(usize),
}

fn mk(k: K) -> MK {
    match k {
        K::I0 => MK::Int(0),
        K::I1 => MK::Int(1),
        K::I2 => MK::Int(2),
        K::I7 => MK::Int(7),
        K::R15 => MK::R15,
        K::A1 | K::A2 => MK::A,
        K::B => MK::B,
        K::Nil => MK::Nil,
    }
}

struct Sys {
    prefill: usize,
}

struct Inst {
    #[allow(dead_code)]
    vm: Vm<'static, ()>,
    tables: [Value; 2],
    strs: [Value; 3], // "a" #1, "a" #2, "b"
    model: [Vec<(MK, Val)>; 2],
}

fn dv(key: &str, what: String) -> Diverge {
    (key.to_string(), what)
}

impl Inst {
    fn key(&self, k: K) -> Value {
        match k {
            K::I0 => Value::Integer(0),
            K::I1 => Value::Integer(1),
            K::I2 => Value::Integer(2),
            K::I7 => Value::Integer(7),
            K::R15 => Value::Real(1.5),
            K::A1 => self.strs[0],
            K::A2 => self.strs[1],
            K::B => self.strs[2],
            K::Nil => Value::Nil,
        }
    }
    fn val(&self, v: Val) -> Value {
        match v {
            Val::N(i) => Value::Integer(i),
            Val::T(i) => self.tables[i],
        }
    }
    fn table(&self, i: usize) -> &'static mut CaoLangTable {
        let mut v = self.tables[i];
        let t: &mut CaoLangTable = cao_lang::vm::get_table_mut(&mut v).unwrap();
        // the table lives in the VM heap for as long as the Inst does
        unsafe { &mut *(t as *mut CaoLangTable) }
    }
    fn show(&self, v: &Value) -> Val {
        match v {
            Value::Integer(i) => Val::N(*i),
            Value::Object(o) => {
                if Value::Object(*o).is_obj() && std::ptr::eq(o.as_ptr(), obj_ptr(&self.tables[0])) {
                    Val::T(0)
                } else if std::ptr::eq(o.as_ptr(), obj_ptr(&self.tables[1])) {
                    Val::T(1)
                } else {
                    Val::N(-999)
                }
            }
            Value::Nil => Val::N(-1000),
            Value::Real(_) => Val::N(-1001),
        }
    }
    fn show_key(&self, v: &Value) -> Option<MK> {
        Some(match v {
            Value::Integer(i) => MK::Int(*i),
            Value::Real(r) if *r == 1.5 => MK::R15,
            Value::Nil => MK::Nil,
            Value::Object(_) => match unsafe { v.as_str() } {
                Some("a") => MK::A,
                Some("b") => MK::B,
                _ => return None,
            },
            _ => return None,
        })
    }
}

/// keys the table is pre-filled with. 4 / 5: plain integers; 6: five integers chosen with the real
/// hasher so that after the first growth step (8 -> 12 buckets) three of them share the last
/// bucket as home and one the last but one: probe chains that wrap around the end of the new array
fn prefill_keys(kind: usize) -> Vec<i64> {
    if kind != 6 {
        return (0..kind as i64).map(|i| 100 + i).collect();
    }
    let home12 = |n: i64| (cao_lang::collections::hash_map::CaoHashMap::<Value, ()>::verif_hash(&Value::Integer(n)).wrapping_mul(2654435769) as usize) % 12;
    let mut last = Vec::new();
    let mut before = Vec::new();
    let mut n = 100i64;
    while (last.len() < 3 || before.len() < 2) && n < 100_000 {
        // (the multiplier is divisible by 3, so only homes 0,3,6,9 occur at 12 buckets: the
        // highest one is 9; three keys there fill 9,10,11 and the next one wraps)
        match home12(n) {
            9 if last.len() < 3 => last.push(n),
            6 if before.len() < 2 => before.push(n),
            _ => {}
        }
        n += 1;
    }
    last.extend(before);
    last
}

fn obj_ptr(v: &Value) -> *const cao_lang::vm::runtime::cao_lang_object::CaoLangObject {
    match v {
        Value::Object(o) => o.as_ptr(),
        _ => std::ptr::null(),
    }
}

impl HistSystem for Sys {
    type Op = Op;
    type Inst = Inst;

    fn fresh(&self) -> Inst {
        let mut vm: Vm<()> = Vm::new(()).unwrap();
        vm.runtime_data = RuntimeData::new(16 << 20, 64, 16).unwrap();
        let t0 = Value::Object(vm.init_table().unwrap().into_inner());
        let t1 = Value::Object(vm.init_table().unwrap().into_inner());
        let a1 = Value::Object(vm.init_string("a").unwrap().into_inner());
        let a2 = Value::Object(vm.init_string("a").unwrap().into_inner());
        let b = Value::Object(vm.init_string("b").unwrap().into_inner());
        let inst = Inst { vm, tables: [t0, t1], strs: [a1, a2, b], model: [Vec::new(), Vec::new()] };
        let mut inst = inst;
        for (i, key) in prefill_keys(self.prefill).into_iter().enumerate() {
            // distinct integer keys outside the alphabet: the table starts close to its first growth step
            inst.table(0).insert(Value::Integer(key), Value::Integer(i as i64)).unwrap();
            inst.model[0].push((MK::Int(key), Val::N(i as i64)));
        }
        inst
    }

    fn ops(&self, _inst: &Inst) -> Vec<Op> {
        let mut ops = Vec::new();
        for t in 0..2 {
            for k in KEYS {
                for v in [Val::N(1), Val::N(2), Val::T(1 - t)] {
                    ops.push(Op::Insert(t, k, v));
                }
                ops.push(Op::Remove(t, k));
            }
            ops.push(Op::Append(t, Val::N(5)));
            ops.push(Op::Append(t, Val::T(t)));
            ops.push(Op::Pop(t));
            ops.push(Op::CloneReplace(t));
        }
        ops
    }

    fn apply(&self, inst: &mut Inst, op: &Op) -> Result<(), Diverge> {
        match op {
            Op::Insert(t, k, v) => {
                let (kv, vv) = (inst.key(*k), inst.val(*v));
                inst.table(*t).insert(kv, vv).map_err(|e| dv("insert/error", format!("{e}")))?;
                let m = &mut inst.model[*t];
                match m.iter_mut().find(|(mk_, _)| *mk_ == mk(*k)) {
                    Some(e) => e.1 = *v,
                    None => m.push((mk(*k), *v)),
                }
            }
            Op::Append(t, v) => {
                let vv = inst.val(*v);
                inst.table(*t).append(vv).map_err(|e| dv("append/error", format!("{e}")))?;
                let m = &mut inst.model[*t];
                // the smallest unused integer key not below the current length
                let mut idx = m.len() as i64;
                while m.iter().any(|(k, _)| *k == MK::Int(idx)) {
                    idx += 1;
                }
                m.push((MK::Int(idx), *v));
            }
            Op::Pop(t) => {
                let got = inst.table(*t).pop().map_err(|e| dv("pop/error", format!("{e}")))?;
                let exp = inst.model[*t].pop();
                let g = inst.show(&got);
                match exp {
                    Some((_, v)) => {
                        if g != v {
                            return Err(dv("pop/value", format!("pop returned {g:?}, model {v:?}")));
                        }
                    }
                    None => {
                        if !matches!(got, Value::Nil) {
                            return Err(dv("pop/empty", format!("pop on an empty table returned {g:?}")));
                        }
                    }
                }
            }
            Op::CloneReplace(t) => {
                let c = std::panic::catch_unwind(std::panic::AssertUnwindSafe(|| inst.table(*t).clone())).map_err(|p| dv("clone/panic", cvx_core::engine::panic_message(&p)))?;
                *inst.table(*t) = c;
            }
            Op::Remove(t, k) => {
                let kv = inst.key(*k);
                inst.table(*t).remove(kv).map_err(|e| dv("remove/error", format!("{e}")))?;
                inst.model[*t].retain(|(mk_, _)| *mk_ != mk(*k));
            }
        }
        Ok(())
    }

    fn invariants(&self, inst: &mut Inst) -> Result<(), Diverge> {
        for t in 0..2 {
            let table = inst.table(t);
            let m = &inst.model[t];
            if table.len() != m.len() || table.is_empty() != m.is_empty() {
                return Err(dv("len", format!("table {t}: len() = {}, model {} ({m:?})", table.len(), m.len())));
            }
            // reads through every equal key form
            for k in KEYS {
                let kv = inst.key(k);
                let exp = m.iter().find(|(mk_, _)| *mk_ == mk(k)).map(|e| e.1);
                let got = table.get(&kv).map(|v| inst.show(v));
                if got != exp {
                    return Err(dv(
                        if exp.is_some() { "get/lost-entry" } else { "get/phantom-entry" },
                        format!("table {t}: get({k:?}) = {got:?}, model {exp:?}"),
                    ));
                }
                if table.contains(&kv) != exp.is_some() {
                    return Err(dv("contains", format!("table {t}: contains({k:?}) disagrees with the model")));
                }
            }
            // integer keys through the `Borrow<i64>` implementation of Value
            for n in [0i64, 1, 2, 7, 5] {
                let exp = m.iter().find(|(mk_, _)| *mk_ == MK::Int(n)).map(|e| e.1);
                let got = table.get(&n).map(|v| inst.show(v));
                if got != exp {
                    return Err(dv("get/i64-borrow", format!("table {t}: get(&{n}i64) = {got:?}, model {exp:?}")));
                }
            }
            for (s, mkey) in [("a", MK::A), ("b", MK::B), ("", MK::Int(-12345))] {
                let exp = m.iter().find(|(mk_, _)| *mk_ == mkey).map(|e| e.1);
                let got = table.get(s).map(|v| inst.show(v));
                if got != exp {
                    return Err(dv("get/str-borrow", format!("table {t}: get({s:?}) through &str = {got:?}, model {exp:?}")));
                }
            }
            // order: keys(), iter(), nth_key
            let keys: Vec<Option<MK>> = table.keys().iter().map(|k| inst.show_key(k)).collect();
            let want: Vec<Option<MK>> = m.iter().map(|e| Some(e.0)).collect();
            if keys != want {
                return Err(dv("keys/order", format!("table {t}: keys() = {keys:?}, model {want:?}")));
            }
            let it: Vec<(Option<MK>, Val)> = table.iter().map(|(k, v)| (inst.show_key(k), inst.show(v))).collect();
            let want_it: Vec<(Option<MK>, Val)> = m.iter().map(|e| (Some(e.0), e.1)).collect();
            if it != want_it {
                return Err(dv("iter/order", format!("table {t}: iter() = {it:?}, model {want_it:?}")));
            }
            for i in 0..=m.len() + 1 {
                let got = table.nth_key(i);
                let exp = m.get(i).map(|e| e.0);
                let g = if i < m.len() { inst.show_key(&got) } else { None };
                if i < m.len() && g != exp {
                    return Err(dv("nth_key", format!("table {t}: nth_key({i}) = {g:?}, model {exp:?}")));
                }
                if i >= m.len() && !matches!(got, Value::Nil) {
                    return Err(dv("nth_key/beyond", format!("table {t}: nth_key({i}) beyond the length is not nil")));
                }
            }
            // the hash part holds exactly the listed keys
            let live = table.verif_raw_slots().into_iter().flatten().count();
            if live != m.len() {
                return Err(dv("buckets/count", format!("table {t}: {live} occupied buckets, {} entries", m.len())));
            }
        }
        Ok(())
    }

    fn canon(&self, inst: &Inst) -> Vec<u8> {
        let mut s = String::new();
        for t in 0..2 {
            let table = inst.table(t);
            s.push_str(&format!("T{t} cap{} keys[", table.capacity()));
            for k in table.keys() {
                s.push_str(&format!("{:?},", inst.show_key(k)));
            }
            s.push_str("] slots[");
            for slot in table.verif_raw_slots() {
                match slot {
                    None => s.push('_'),
                    Some((_, k, v)) => {
                        // the two equal "a" objects are distinguished: which one is stored matters
                        // only for identity, not for any later read, so they are merged
                        s.push_str(&format!("{:?}={:?}", inst.show_key(k), inst.show(v)));
                    }
                }
                s.push(',');
            }
            s.push(']');
        }
        s.into_bytes()
    }

    fn finish(&self, _inst: Inst) -> Result<(), Diverge> {
        Ok(())
    }

    fn nontrivial(&self, inst: &Inst) -> bool {
        // aliasing present (a table stored in a table) or the first growth step passed
        inst.model.iter().any(|m| m.iter().any(|e| matches!(e.1, Val::T(_)))) || inst.table(0).capacity() > 8
    }

    fn op_kind(&self, op: &Op) -> String {
        match op {
            Op::Insert(..) => "insert",
            Op::Append(..) => "append",
            Op::Pop(_) => "pop",
            Op::Remove(..) => "remove",
            Op::CloneReplace(_) => "clone",
        }
        .to_string()
    }

    fn outcome(&self, inst: &Inst) -> String {
        format!("len{}/{} cap{}/{}", inst.model[0].len(), inst.model[1].len(), inst.table(0).capacity(), inst.table(1).capacity())
    }
}

fn cfg(prefill: usize, depth: usize, budget_s: u64) -> BfsCfg<'static> {
    BfsCfg {
        property: "C07",
        case_base: json!({"seam": "host", "prefill": prefill}),
        max_depth: depth,
        max_states: 4_000_000,
        threads: 6,
        deadline: Some(std::time::Instant::now() + std::time::Duration::from_secs(budget_s)),
    }
}

// ---- script seam -----------------------------------------------------------------------------------

static QUICK: OnceLock<Vec<Box<dyn Family>>> = OnceLock::new();
static THOROUGH: OnceLock<Vec<Box<dyn Family>>> = OnceLock::new();

fn families(tier: Tier) -> &'static Vec<Box<dyn Family>> {
    match tier {
        Tier::Quick => QUICK.get_or_init(|| vec![Box::new(FTable { len_ops: 1, contexts: 3 }), Box::new(FTable { len_ops: 2, contexts: 3 })]),
        Tier::Thorough => THOROUGH.get_or_init(|| vec![Box::new(FTable { len_ops: 1, contexts: 3 }), Box::new(FTable { len_ops: 2, contexts: 3 }), Box::new(FTable { len_ops: 3, contexts: 3 })]),
    }
}

static JUDGE: SemJudge = SemJudge { property: "C07", opts: RegionOpts { inline_array: false } };

fn host_units(tier: Tier) -> Vec<(usize, usize)> {
    // (prefill, depth)
    vec![(0, tier.pick(4, 4)), (5, tier.pick(3, 4)), (4, tier.pick(3, 4)), (6, tier.pick(3, 4))]
}

/// Fill a table under a small memory limit until an insertion reports OutOfMemory: a failed
/// insertion changes nothing, whatever step of the growth it failed at.
fn oom_fill(limit: usize, mode: u64) -> Result<(), Diverge> {
    let mut vm: Vm<()> = Vm::new(()).unwrap();
    vm.runtime_data = RuntimeData::new(limit, 64, 16).map_err(|e| dv("oom/new", format!("{e:?}")))?;
    let Ok(tg) = vm.init_table() else { return Ok(()) };
    let tv = Value::Object(tg.into_inner());
    vm.stack_push(tv).map_err(|e| dv("oom/push", format!("{e:?}")))?;
    let mut tv2 = tv;
    let table: &mut CaoLangTable = cao_lang::vm::get_table_mut(&mut tv2).unwrap();
    let mut model: Vec<i64> = Vec::new();
    let mut failures = 0;
    for i in 0..100_000i64 {
        let r = match mode {
            0 => table.insert(Value::Integer(i), Value::Integer(i * 10)),
            1 => table.append(Value::Integer(i * 10)),
            _ => table.insert(Value::Integer(1_000_000 - i), Value::Integer(i * 10)),
        };
        let key = if mode == 2 { 1_000_000 - i } else { i };
        match r {
            Ok(()) => model.push(key),
            Err(_) => {
                failures += 1;
                // the failed key is absent, everything else is as before
                if table.len() != model.len() || table.keys().len() != model.len() || table.iter().count() != model.len() {
                    return Err(dv("oom/len-after-failed-insert", format!("limit {limit} mode {mode}: after the failed insertion of key {key}: len() = {}, keys().len() = {}, iter().count() = {}, entries inserted successfully: {}", table.len(), table.keys().len(), table.iter().count(), model.len())));
                }
                if table.get(&Value::Integer(key)).is_some() {
                    return Err(dv("oom/failed-key-present", format!("limit {limit} mode {mode}: the key {key} whose insertion failed reads as present")));
                }
                for (j, k) in model.iter().enumerate() {
                    if table.nth_key(j) != Value::Integer(*k) || table.get(&Value::Integer(*k)).is_none() {
                        return Err(dv("oom/entries-after-failed-insert", format!("limit {limit} mode {mode}: entry #{j} (key {k}) damaged by a failed insertion")));
                    }
                }
                if failures == 3 {
                    // the most recently inserted entry is what pop returns
                    let want = model.pop();
                    let got = table.pop().map_err(|e| dv("oom/pop", format!("{e:?}")))?;
                    let want_v = want.map(|k| if mode == 2 { (1_000_000 - k) * 10 } else { k * 10 });
                    if want_v.map(Value::Integer).unwrap_or(Value::Nil) != got {
                        return Err(dv("oom/pop-after-failed-insert", format!("limit {limit} mode {mode}: pop returned {got:?}, the last successful insertion stored {want_v:?}")));
                    }
                    return Ok(());
                }
            }
        }
    }
    Ok(())
}

fn oom_limits(tier: Tier) -> Vec<usize> {
    let step = tier.pick(256, 64);
    (0..tier.pick(160usize, 1200)).map(|i| 700 + i * step).collect()
}

impl Check for C07 {
    fn id(&self) -> &'static str {
        "C07"
    }
    fn info(&self, tier: Tier) -> CheckInfo {
        let fams = families(tier);
        CheckInfo {
            rule: "memory-limit seam: a table is filled (insert ascending / append / insert descending keys) under every memory limit of a sweep until an insertion reports OutOfMemory; after each of three failed insertions len, keys, iter, every stored entry and finally pop must be exactly as after the last successful insertion. host seam: BFS over histories of insert(t,k,v) / append(t,v) / pop(t) / remove(t,k) on two tables of one real Vm, keys {0,1,2,7,1.5,\"a\" through two distinct string objects,\"b\",nil}, values {1,2,the other table / itself}, starting empty, pre-filled with 4 and 5 plain entries (first growth step within reach) and pre-filled with 5 entries chosen with the real hasher so that the rehash at the first growth step produces probe chains that wrap around the end of the new bucket array; in every state get/contains for every key through every equal key form and through &str, len, keys(), iter() order, nth_key(0..len+1), occupied-bucket count vs. a Vec<(key,value)> model; canonical state = keys vector + every bucket + capacity of both tables. Script seam: every sequence of table cards (SetProperty with 6 keys x 3 values, AppendTable, PopTable, dotted SetVar) on two mutually aliased tables up to the stated length, in main / a callee that receives the tables / a closure that captured them, followed by a read-out (Len, GetProperty for every key, dotted read, ForEach order, Get row for every index), against the reference interpreter. Non-trivial = aliasing present or first growth step passed (host) / distinct reference outcomes per chunk (script)".into(),
            bound: format!("host histories depth {:?} (prefill, depth); script families {:?}", host_units(tier), fams.iter().map(|f| format!("{}={}", f.name(), f.len())).collect::<Vec<_>>()),
            exhaustive: true,
            assumptions: vec!["NaN and signed-zero keys excluded (documented exceptions of the statement: equal finite non-zero reals)".into(), "table values are logged by their length in the script read-out (tables may contain each other)".into()],
            explanation: "host seam transitions are calls of the real CaoLangTable API on VM-allocated tables; script seam programs are compiled and run for real".into(),
        }
    }
    fn units(&self, tier: Tier) -> u64 {
        host_units(tier).len() as u64 + progcheck::units_of(families(tier)) + 1
    }
    fn unit_timeout_s(&self, tier: Tier) -> u64 {
        tier.pick(60, 900)
    }
    fn run_unit(&self, tier: Tier, unit: u64, out: &mut ChunkResult) {
        let hu = host_units(tier);
        if (unit as usize) < hu.len() {
            let (prefill, depth) = hu[unit as usize];
            hist::bfs(&Sys { prefill }, &cfg(prefill, depth, tier.pick(30, 600)), out);
        } else if unit - (hu.len() as u64) < progcheck::units_of(families(tier)) {
            progcheck::run_unit(&JUDGE, families(tier), tier, unit - hu.len() as u64, out)
        } else {
            for limit in oom_limits(tier) {
                for mode in 0..3u64 {
                    out.evaluations += 1;
                    out.traces += 1;
                    match hist::guarded(|| oom_fill(limit, mode), "oom") {
                        Ok(()) => out.nontrivial += 1,
                        Err(d) => {
                            out.violation(Violation::new("C07", d.0, d.1, serde_json::json!({"seam": "oom", "limit": limit, "mode": mode})));
                        }
                    }
                }
            }
            out.states += 1;
            out.outcome("fill until OutOfMemory".to_string());
        }
    }
    fn replay(&self, case: &J) -> Option<Violation> {
        if case["seam"].as_str() == Some("oom") {
            let (limit, mode) = (case["limit"].as_u64()? as usize, case["mode"].as_u64()?);
            return match hist::guarded(|| oom_fill(limit, mode), "oom") {
                Ok(()) => None,
                Err(d) => Some(Violation::new("C07", d.0, d.1, case.clone())),
            };
        }
        if case["seam"].as_str() == Some("host") {
            let h: Vec<Op> = serde_json::from_value(case["history"].clone()).ok()?;
            let prefill = case["prefill"].as_u64()? as usize;
            return hist::replay(&Sys { prefill }, &cfg(prefill, 64, 3600), &h);
        }
        progcheck::replay(&JUDGE, case)
    }
}
