//! E-prog: runner for checks whose cases are IR modules drawn from index -> program families.

use cvx_core::engine::{skip_cases, trace_case_at, ChunkResult, Tier, Violation};
use cvx_core::gen_basic::{CfgLite, Family};
use cvx_core::ir::Module;
use cvx_core::shrink;
use serde_json::{json, Value as J};
use std::collections::{BTreeMap, HashSet};

pub enum JR {
    Pass { outcome: String, fingerprint: u64 },
    /// the case is outside what the property defines (reference says undefined, out of region…)
    Skip(String),
    Fail { class: String, what: String },
}

pub trait Judge: Sync {
    fn property(&self) -> &'static str;
    fn judge(&self, m: &Module, cfg: Option<&CfgLite>) -> JR;
}

pub const CHUNK: u64 = 1000;
pub const SHRINKS_PER_GROUP: u32 = 60;
pub const SHRINK_BUDGET: usize = 1500;

pub fn fnv(s: &str) -> u64 {
    let mut h: u64 = 0xcbf29ce484222325;
    for b in s.bytes() {
        h ^= b as u64;
        h = h.wrapping_mul(0x100000001b3);
    }
    h
}

pub fn total_cases(fams: &[Box<dyn Family>]) -> u64 {
    fams.iter().map(|f| f.len()).sum()
}

pub fn units_of(fams: &[Box<dyn Family>]) -> u64 {
    total_cases(fams).div_ceil(CHUNK)
}

fn locate(fams: &[Box<dyn Family>], mut idx: u64) -> Option<(&dyn Family, u64)> {
    for f in fams {
        if idx < f.len() {
            return Some((f.as_ref(), idx));
        }
        idx -= f.len();
    }
    None
}

pub fn violation_for(judge: &dyn Judge, m: &Module, cfg: Option<&CfgLite>, class: &str, what: &str, origin: J) -> Violation {
    let mut js = serde_json::to_string(m).unwrap();
    if let Some(c) = cfg {
        js.push_str(&serde_json::to_string(c).unwrap());
    }
    // a class ending in '!' names a finding by its site alone (one defect reached by many
    // programs): the key does not include the witness
    let key = match class.strip_suffix('!') {
        Some(site) => site.to_string(),
        None => format!("{class}:{:016x}", fnv(&js)),
    };
    Violation::new(
        judge.property(),
        key,
        format!("{what} || minimal program: {}", shrink::render(m)),
        json!({"module": m, "cfg": cfg, "origin": origin}),
    )
}

pub fn run_unit(judge: &dyn Judge, fams: &[Box<dyn Family>], tier: Tier, unit: u64, out: &mut ChunkResult) {
    run_unit_with(&|_| judge, fams, tier, unit, out)
}

/// like `run_unit`, the judge may depend on the family the case comes from
pub fn run_unit_with<'j>(judge_for: &dyn Fn(&str) -> &'j dyn Judge, fams: &[Box<dyn Family>], tier: Tier, unit: u64, out: &mut ChunkResult) {
    let _ = tier;
    let lo = unit * CHUNK;
    let hi = ((unit + 1) * CHUNK).min(total_cases(fams));
    let mut distinct: HashSet<u64> = HashSet::new();
    let mut shrunk: BTreeMap<String, u32> = BTreeMap::new();
    for idx in lo..hi {
        if idx - lo < skip_cases() {
            continue;
        }
        let Some((fam, i)) = locate(fams, idx) else { break };
        let m = fam.case(i);
        let cfg = fam.cfg(i);
        let cfg = cfg.as_ref();
        let judge = judge_for(fam.name());
        trace_case_at(idx - lo, || json!({"module": m, "cfg": cfg, "origin": {"family": fam.name(), "index": i}}));
        out.evaluations += 1;
        out.traces += 1;
        match judge.judge(&m, cfg) {
            JR::Pass { outcome, fingerprint } => {
                out.outcome(outcome);
                if distinct.insert(fingerprint) {
                    out.nontrivial += 1;
                    out.states += 1;
                }
                out.transitions += m.size() as u64;
                if idx % 97 == 0 {
                    out.sample(|| json!({"family": fam.name(), "index": i, "program": shrink::render(&m)}));
                }
            }
            JR::Skip(why) => {
                out.count(&format!("skipped/{why}"), 1);
                out.outcome("skipped");
            }
            JR::Fail { class, what } => {
                out.outcome(format!("FAIL {class}"));
                let group = format!("{}/{}", fam.name(), class);
                let n = shrunk.entry(group.clone()).or_insert(0);
                if *n >= SHRINKS_PER_GROUP {
                    out.count(&format!("unshrunk_failures/{group}"), 1);
                    continue;
                }
                *n += 1;
                let mut still = |v: &Module| match judge.judge(v, cfg) {
                    JR::Fail { class, .. } => Some(class),
                    _ => None,
                };
                let small = shrink::shrink(&m, &class, &mut still, SHRINK_BUDGET);
                let what2 = match judge.judge(&small, cfg) {
                    JR::Fail { what, .. } => what,
                    _ => what,
                };
                out.violation(violation_for(judge, &small, cfg, &class, &what2, json!({"family": fam.name(), "index": i})));
            }
        }
    }
}

pub fn replay(judge: &dyn Judge, case: &J) -> Option<Violation> {
    let m: Module = serde_json::from_value(case["module"].clone()).ok()?;
    let cfg: Option<CfgLite> = serde_json::from_value(case["cfg"].clone()).ok().flatten();
    let r = judge.judge(&m, cfg.as_ref());
    if std::env::var_os("CVX_REPLAY_SHOW").is_some() {
        match &r {
            JR::Fail { class, what } => eprintln!("judge: FAIL {class}: {what}"),
            JR::Skip(why) => eprintln!("judge: SKIP {why}"),
            JR::Pass { outcome, .. } => eprintln!("judge: PASS {outcome}"),
        }
    }
    match r {
        JR::Fail { class, what } => Some(violation_for(judge, &m, cfg.as_ref(), &class, &what, case["origin"].clone())),
        _ => None,
    }
}
