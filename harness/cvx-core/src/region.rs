//! The region the properties call "well-scoped" (DESIGN.md §3.3), as a static check on IR modules.
//! Generators stay inside it by construction; the shrinker uses it to stay inside.

use crate::ir::*;

#[derive(Clone, Copy, Debug, Default)]
pub struct RegionOpts {
    /// allow `Array` cards anywhere a value is expected (the dedicated inline-Array family);
    /// otherwise an Array may only be the value of a statement-level SetVar / SetGlobal
    pub inline_array: bool,
}

struct Fun {
    /// open scopes of declared local names, innermost last
    scopes: Vec<Vec<String>>,
}

struct Ck {
    funs: Vec<Fun>,
    opts: RegionOpts,
    is_main: bool,
}

type R = Result<(), String>;

impl Ck {
    fn visible(&self, name: &str) -> bool {
        self.funs.iter().any(|f| f.scopes.iter().any(|s| s.iter().any(|n| n == name)))
    }
    fn declare(&mut self, name: &str) {
        self.funs.last_mut().unwrap().scopes.last_mut().unwrap().push(name.to_string());
    }

    /// a card whose value is consumed
    fn value(&mut self, c: &C) -> R {
        if !c.produces_value() {
            return Err(format!("W1: {} used where a value is consumed", c.kind()));
        }
        if matches!(c, C::Array(_)) && !self.opts.inline_array {
            return Err("inline Array outside the dedicated family".into());
        }
        self.card(c, false)
    }

    /// `decl_ok`: a new local may be introduced by this card (function / loop body level)
    fn card(&mut self, c: &C, decl_ok: bool) -> R {
        match c {
            C::SetVar(name, v) => {
                self.bound_value(v, decl_ok)?;
                if name.is_empty() {
                    return Err("empty variable name".into());
                }
                if !name.contains('.') && !self.visible(name) {
                    if !decl_ok {
                        return Err(format!("W2: local {name} introduced outside function / loop-body level"));
                    }
                    self.declare(name);
                }
                Ok(())
            }
            C::SetGlobal(name, v) => {
                if name.is_empty() {
                    return Err("empty variable name".into());
                }
                self.bound_value(v, decl_ok)
            }
            C::Composite(_, cards) => {
                for (i, x) in cards.iter().enumerate() {
                    let last = i + 1 == cards.len();
                    if c.produces_value() && last {
                        self.value(x)?;
                    } else {
                        self.card(x, decl_ok)?;
                    }
                }
                Ok(())
            }
            C::IfTrue(cond, body) | C::IfFalse(cond, body) => {
                self.value(cond)?;
                self.card(body, false)
            }
            C::While(cond, body) => {
                // a loop body: new locals may be introduced, they live for one iteration
                self.value(cond)?;
                self.funs.last_mut().unwrap().scopes.push(vec![]);
                let r = self.card(body, true);
                self.funs.last_mut().unwrap().scopes.pop();
                r
            }
            C::IfElse(cond, t, e) => {
                self.value(cond)?;
                self.card(t, false)?;
                self.card(e, false)
            }
            C::Repeat { n, i, body } => {
                self.value(n)?;
                self.funs.last_mut().unwrap().scopes.push(vec![]);
                if let Some(i) = i {
                    if i.is_empty() {
                        return Err("empty variable name".into());
                    }
                    self.declare(i);
                }
                let r = self.card(body, true);
                self.funs.last_mut().unwrap().scopes.pop();
                r
            }
            C::ForEach { i, k, v, iterable, body } => {
                self.value(iterable)?;
                self.funs.last_mut().unwrap().scopes.push(vec![]);
                for n in [v, k, i].into_iter().flatten() {
                    if n.is_empty() {
                        return Err("empty variable name".into());
                    }
                    self.declare(n);
                }
                let r = self.card(body, true);
                self.funs.last_mut().unwrap().scopes.pop();
                r
            }
            C::Return(v) => {
                if self.is_main && self.funs.len() == 1 {
                    return Err("W4: Return directly in main".into());
                }
                self.value(v)
            }
            C::Closure(params, cards) => {
                self.funs.push(Fun { scopes: vec![params.clone()] });
                let mut r = Ok(());
                for x in cards {
                    r = self.card(x, true);
                    if r.is_err() {
                        break;
                    }
                }
                self.funs.pop();
                r
            }
            C::Array(items) => {
                if !self.opts.inline_array {
                    return Err("inline Array outside the dedicated family".into());
                }
                for x in items {
                    self.value(x)?;
                }
                Ok(())
            }
            C::SetProperty(a, b, d) => {
                self.value(a)?;
                self.value(b)?;
                self.value(d)
            }
            C::Append(a, b) => {
                self.value(a)?;
                self.value(b)
            }
            C::Abort | C::Comment(_) | C::Nil | C::CreateTable | C::Int(_) | C::Float(_) | C::Str(_) | C::Function(_) | C::NativeFunction(_) => Ok(()),
            C::ReadVar(n) => {
                if n.is_empty() {
                    Err("empty variable name".into())
                } else {
                    Ok(())
                }
            }
            // every remaining card consumes all of its children as values
            other => {
                for x in other.children() {
                    self.value(x)?;
                }
                Ok(())
            }
        }
    }

    /// the value of a SetVar / SetGlobal: an Array is fine here if the statement is at
    /// declaration level ("bound by a statement")
    fn bound_value(&mut self, v: &C, decl_ok: bool) -> R {
        if let C::Array(items) = v {
            if decl_ok || self.opts.inline_array {
                for x in items {
                    self.value(x)?;
                }
                return Ok(());
            }
        }
        self.value(v)
    }
}

pub fn check_module(m: &Module, opts: RegionOpts) -> Result<(), String> {
    fn go(m: &Module, root: bool, opts: RegionOpts) -> R {
        for (name, f) in m.functions.iter() {
            let is_main = root && name == "main";
            if is_main && !f.params.is_empty() {
                return Err("parameters on main".into());
            }
            let mut seen = Vec::new();
            for p in f.params.iter() {
                if seen.contains(&p) {
                    return Err("duplicate parameter names".into());
                }
                seen.push(p);
            }
            let mut ck = Ck { funs: vec![Fun { scopes: vec![f.params.clone()] }], opts, is_main };
            for c in f.cards.iter() {
                ck.card(c, true)?;
            }
        }
        for (_, s) in m.submodules.iter() {
            go(s, false, opts)?;
        }
        Ok(())
    }
    go(m, true, opts)
}
