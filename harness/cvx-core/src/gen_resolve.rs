//! C08 families: module trees with same-named functions in different modules, every call-site
//! position, every name form and import list; plus the must-be-error family.

use crate::gen_basic::Family;
use crate::ir::*;

fn tagged(full: &str) -> Func {
    func(&[], vec![native("log", vec![s(&format!("ran:{full}"))]), C::Return(b(s(full)))])
}

pub const CALLED: [&str; 10] = ["f", "g", "a.f", "a.b.f", "b.f", "b.g", "std.row_to_value", "x", "filter", "a.b.g"];
pub const IMPORT_SETS: [&[&str]; 20] = [
    &[],
    &["a.f"],
    &["a.b.f"],
    &["a"],
    &["a.b"],
    &["b.f"],
    &["b.g"],
    &["super.f"],
    &["super.g"],
    &["super.a"],
    &["super.b"],
    &["super.super.f"],
    &["super.super.b"],
    &["super.super.super.f"],
    &["f"],
    &["a.f", "a.f"],
    &["a.f", "b.f"],
    &["a.f", "super.g"],
    &["std.filter"],
    &["super.b.g"],
];

pub struct FResolve;

impl FResolve {
    const PRESENCE_BITS: u64 = 7;
}

impl Family for FResolve {
    fn name(&self) -> &'static str {
        "F-resolve"
    }
    fn len(&self) -> u64 {
        (1 << Self::PRESENCE_BITS) * 3 * CALLED.len() as u64 * 2 * IMPORT_SETS.len() as u64
    }
    fn case(&self, idx: u64) -> Module {
        let mut i = idx;
        let bits = i % (1 << Self::PRESENCE_BITS);
        i >>= Self::PRESENCE_BITS;
        let site = i % 3;
        i /= 3;
        let called = CALLED[(i % CALLED.len() as u64) as usize];
        i /= CALLED.len() as u64;
        let dynamic = i % 2 == 1;
        i /= 2;
        let imports: Vec<String> = IMPORT_SETS[i as usize].iter().map(|x| x.to_string()).collect();
        let has = |k: u64| bits & (1 << k) != 0;
        let the_call = if dynamic { C::DynCall(b(C::Function(called.to_string())), vec![]) } else { call(called, vec![]) };
        let caller = func(&[], vec![sv("canary", int(5)), sg("got", the_call), native("log2", vec![s("canary"), rv("canary")])]);

        let mut ab = Module::default();
        if has(0) {
            ab.functions.push(("f".into(), tagged("a.b.f")));
        }
        if has(1) {
            ab.functions.push(("g".into(), tagged("a.b.g")));
        }
        let mut a = Module::default();
        if has(2) {
            a.functions.push(("f".into(), tagged("a.f")));
        }
        if has(3) {
            a.functions.push(("g".into(), tagged("a.g")));
        }
        let mut bm = Module::default();
        if has(4) {
            bm.functions.push(("f".into(), tagged("b.f")));
        }
        if has(5) {
            bm.functions.push(("g".into(), tagged("b.g")));
        }
        let mut root = Module::default();
        let entry = match site {
            0 => {
                root.imports = imports;
                caller
            }
            1 => {
                a.imports = imports;
                a.functions.push(("caller".into(), caller));
                func(&[], vec![call("a.caller", vec![])])
            }
            _ => {
                ab.imports = imports;
                ab.functions.push(("caller".into(), caller));
                func(&[], vec![call("a.b.caller", vec![])])
            }
        };
        root.functions.push(("main".into(), entry));
        if has(6) {
            root.functions.push(("f".into(), tagged("f")));
        }
        a.submodules.push(("b".into(), ab));
        root.submodules.push(("a".into(), a));
        root.submodules.push(("b".into(), bm));
        root
    }
}

/// Two call sites in ONE function, in order: every ordered pair of the called names of F-resolve
/// under every import list, caller in root / a / a.b, on the full tree (every function present) and
/// on two trees that lack a.b.g and a.f, one of them also the root-level f (so that the imports through `super.` are what finds them). The resolution of the second name must not
/// depend on how the first one was found (a scratch buffer, a cache or a cursor left behind by a
/// lookup that walked up through `super.` or through an import).
pub struct FResolveTwo;

impl FResolveTwo {
    const TREES: [u64; 3] = [0b1111111, 0b1111001, 0b0111001];
}

impl Family for FResolveTwo {
    fn name(&self) -> &'static str {
        "F-resolve-two"
    }
    fn len(&self) -> u64 {
        Self::TREES.len() as u64 * 3 * (CALLED.len() * CALLED.len()) as u64 * IMPORT_SETS.len() as u64
    }
    fn case(&self, idx: u64) -> Module {
        let mut i = idx;
        let bits = Self::TREES[(i % Self::TREES.len() as u64) as usize];
        i /= Self::TREES.len() as u64;
        let site = i % 3;
        i /= 3;
        let first = CALLED[(i % CALLED.len() as u64) as usize];
        i /= CALLED.len() as u64;
        let second = CALLED[(i % CALLED.len() as u64) as usize];
        i /= CALLED.len() as u64;
        let imports: Vec<String> = IMPORT_SETS[i as usize].iter().map(|x| x.to_string()).collect();
        let has = |k: u64| bits & (1 << k) != 0;
        let caller = func(&[], vec![sv("canary", int(5)), sg("got", call(first, vec![])), sg("got2", call(second, vec![])), native("log2", vec![s("canary"), rv("canary")])]);
        let mut ab = Module::default();
        if has(0) {
            ab.functions.push(("f".into(), tagged("a.b.f")));
        }
        if has(1) {
            ab.functions.push(("g".into(), tagged("a.b.g")));
        }
        let mut a = Module::default();
        if has(2) {
            a.functions.push(("f".into(), tagged("a.f")));
        }
        if has(3) {
            a.functions.push(("g".into(), tagged("a.g")));
        }
        let mut bm = Module::default();
        if has(4) {
            bm.functions.push(("f".into(), tagged("b.f")));
        }
        if has(5) {
            bm.functions.push(("g".into(), tagged("b.g")));
        }
        let mut root = Module::default();
        let entry = match site {
            0 => {
                root.imports = imports;
                caller
            }
            1 => {
                a.imports = imports;
                a.functions.push(("caller".into(), caller));
                func(&[], vec![call("a.caller", vec![])])
            }
            _ => {
                ab.imports = imports;
                ab.functions.push(("caller".into(), caller));
                func(&[], vec![call("a.b.caller", vec![])])
            }
        };
        root.functions.push(("main".into(), entry));
        if has(6) {
            root.functions.push(("f".into(), tagged("f")));
        }
        a.submodules.push(("b".into(), ab));
        root.submodules.push(("a".into(), a));
        root.submodules.push(("b".into(), bm));
        root
    }
}

/// An import list belongs to the module that declares it and to no other: the tree of F-resolve with
/// the import list on one module and the (import-less) caller in another one - a descendant, the
/// parent, a sibling.
pub struct FImportScope;

impl FImportScope {
    /// (module carrying the imports, module of the caller): 0 = root, 1 = a, 2 = a.b, 3 = b
    const PAIRS: [(u8, u8); 6] = [(0, 1), (0, 2), (1, 2), (2, 1), (3, 1), (1, 3)];
}

impl Family for FImportScope {
    fn name(&self) -> &'static str {
        "F-import-scope"
    }
    fn len(&self) -> u64 {
        (1 << FResolve::PRESENCE_BITS) * Self::PAIRS.len() as u64 * CALLED.len() as u64 * IMPORT_SETS.len() as u64
    }
    fn case(&self, idx: u64) -> Module {
        let mut i = idx;
        let bits = i % (1 << FResolve::PRESENCE_BITS);
        i >>= FResolve::PRESENCE_BITS;
        let (importer, site) = Self::PAIRS[(i % Self::PAIRS.len() as u64) as usize];
        i /= Self::PAIRS.len() as u64;
        let called = CALLED[(i % CALLED.len() as u64) as usize];
        i /= CALLED.len() as u64;
        let imports: Vec<String> = IMPORT_SETS[i as usize].iter().map(|x| x.to_string()).collect();
        let has = |k: u64| bits & (1 << k) != 0;
        let caller = func(&[], vec![sv("canary", int(5)), sg("got", call(called, vec![])), native("log2", vec![s("canary"), rv("canary")])]);
        let mut mods: [Module; 4] = Default::default();
        for (k, (mi, fname, full)) in [(2usize, "f", "a.b.f"), (2, "g", "a.b.g"), (1, "f", "a.f"), (1, "g", "a.g"), (3, "f", "b.f"), (3, "g", "b.g"), (0, "f", "f")].into_iter().enumerate() {
            if has(k as u64) {
                mods[mi].functions.push((fname.into(), tagged(full)));
            }
        }
        mods[importer as usize].imports = imports;
        let path = ["caller", "a.caller", "a.b.caller", "b.caller"][site as usize];
        mods[site as usize].functions.push(("caller".into(), caller));
        let [mut root, mut a, ab, bm] = mods;
        root.functions.insert(0, ("main".into(), func(&[], vec![call(path, vec![])])));
        a.submodules.push(("b".into(), ab));
        root.submodules.push(("a".into(), a));
        root.submodules.push(("b".into(), bm));
        root
    }
}

/// Module and function names that look like numbers or like parts of a location (`7`, `0`, `007`,
/// `1_2`, `std_1`): legal identifiers; an error raised inside such a module carries the name in
/// the namespace of its trace.
pub struct FDigitNames;

impl FDigitNames {
    const NAMES: [&'static str; 6] = ["7", "0", "007", "1_2", "_", "std_1"];
}

impl Family for FDigitNames {
    fn name(&self) -> &'static str {
        "F-digit-names"
    }
    fn len(&self) -> u64 {
        (Self::NAMES.len() * Self::NAMES.len() * 3 * 2) as u64
    }
    fn case(&self, idx: u64) -> Module {
        let n = Self::NAMES.len() as u64;
        let outer = Self::NAMES[(idx % n) as usize];
        let inner = Self::NAMES[((idx / n) % n) as usize];
        let depth = (idx / (n * n)) % 3;
        let fails = idx / (n * n * 3) == 1;
        // the function is named like a number too
        let mut body = vec![native("log", vec![s("ran")]), sv("x", int(1))];
        if fails {
            body.push(sg("_sink", bin(BinOp::Add, rv("x"), native("missing_native", vec![]))));
        }
        body.push(C::Return(b(s("done"))));
        let mut target = Module::default();
        target.functions.push(("9".into(), func(&[], body)));
        let mut root = Module::default();
        let path = match depth {
            0 => {
                root.functions.push(("9".into(), target.functions.pop().unwrap().1));
                "9".to_string()
            }
            1 => {
                root.submodules.push((outer.into(), target));
                format!("{outer}.9")
            }
            _ => {
                let mut mid = Module::default();
                mid.submodules.push((inner.into(), target));
                root.submodules.push((outer.into(), mid));
                format!("{outer}.{inner}.9")
            }
        };
        root.functions.insert(0, ("main".into(), func(&[], vec![sg("got", call(&path, vec![]))])));
        root
    }
}

/// names, duplicates and reserved module names at every level
pub struct FBadNames;

impl FBadNames {
    const NAMES: [&'static str; 10] = ["f", "", "a.b", "super", "é", "1x", "x_1", "main", "std", "with space"];
}

impl Family for FBadNames {
    fn name(&self) -> &'static str {
        "F-badnames"
    }
    fn len(&self) -> u64 {
        // (kind: function name / module name / duplicate function / duplicate module / library-named function) x level x name
        5 * 3 * Self::NAMES.len() as u64
    }
    fn case(&self, idx: u64) -> Module {
        let n = Self::NAMES.len() as u64;
        let name = Self::NAMES[(idx % n) as usize];
        let level = (idx / n) % 3;
        let kind = idx / (3 * n);
        let lib_names = ["filter", "map", "min", "sorted", "to_array", "row_to_value", "any", "max", "min_by_key", "sorted_by_key"];
        let mut target = Module::default();
        let mut call_path = String::new();
        match kind {
            0 => {
                target.functions.push((name.to_string(), tagged("t")));
                call_path = name.to_string();
            }
            1 => {
                let mut inner = Module::default();
                inner.functions.push(("h".into(), tagged("t")));
                target.submodules.push((name.to_string(), inner));
                call_path = format!("{name}.h");
            }
            2 => {
                target.functions.push((name.to_string(), tagged("first")));
                target.functions.push((name.to_string(), tagged("second")));
                call_path = name.to_string();
            }
            3 => {
                let mut i1 = Module::default();
                i1.functions.push(("h".into(), tagged("first")));
                let mut i2 = Module::default();
                i2.functions.push(("h2".into(), tagged("second")));
                target.submodules.push((name.to_string(), i1));
                target.submodules.push((name.to_string(), i2));
                call_path = format!("{name}.h");
            }
            _ => {
                // a user function named like a library function, must be callable
                let ln = lib_names[(idx % n) as usize % lib_names.len()];
                target.functions.push((ln.to_string(), tagged("user")));
                call_path = ln.to_string();
            }
        }
        let mut root = Module::default();
        let mut prefix: Vec<&str> = Vec::new();
        let placed = match level {
            0 => {
                root.functions.extend(target.functions);
                root.submodules.extend(target.submodules);
                None
            }
            1 => {
                prefix.push("m1");
                Some(("m1".to_string(), target))
            }
            _ => {
                prefix.push("m1");
                prefix.push("m2");
                let mut mid = Module::default();
                mid.submodules.push(("m2".into(), target));
                Some(("m1".to_string(), mid))
            }
        };
        if let Some(p) = placed {
            root.submodules.push(p);
        }
        let full = if prefix.is_empty() { call_path } else { format!("{}.{}", prefix.join("."), call_path) };
        root.functions.insert(0, ("main".into(), func(&[], vec![sg("got", call(&full, vec![]))])));
        root
    }
}

/// Modules whose names merely contain the text `super` (`mysuper`, `superb`, `super_x`, `xsuper`):
/// `super.` walks up only as a complete leading path segment.
pub struct FSuperLike;

impl FSuperLike {
    const NAMES: [&'static str; 5] = ["mysuper", "superb", "super_x", "xsuper", "supersuper"];
}

impl Family for FSuperLike {
    fn name(&self) -> &'static str {
        "F-superlike"
    }
    fn len(&self) -> u64 {
        Self::NAMES.len() as u64 * 4 * 3
    }
    fn case(&self, idx: u64) -> Module {
        let name = Self::NAMES[(idx % 5) as usize];
        let form = (idx / 5) % 4;
        let site = idx / 20;
        let mut m = Module::default();
        m.functions.push(("foo".into(), tagged(&format!("{name}.foo"))));
        let mut inner = Module::default();
        inner.functions.push(("bar".into(), tagged(&format!("{name}.in.bar"))));
        m.submodules.push(("in".into(), inner));
        // how the caller names the function
        let (imports, called): (Vec<String>, String) = match (form, site) {
            (0, _) => (vec![], format!("{name}.foo")),                              // absolute path
            (1, 0) => (vec![format!("{name}.foo")], "foo".to_string()),             // function import
            (1, _) => (vec![format!("super.{name}.foo")], "foo".to_string()),
            (2, 0) => (vec![name.to_string()], format!("{name}.foo")),              // module import
            (2, _) => (vec![format!("super.{name}")], format!("{name}.foo")),
            (_, 0) => (vec![format!("{name}.in")], "in.bar".to_string()),            // nested module import
            (_, _) => (vec![format!("super.{name}.in")], "in.bar".to_string()),
        };
        let caller = func(&[], vec![sg("got", call(&called, vec![]))]);
        let mut root = Module::default();
        match site {
            0 => {
                root.imports = imports;
                root.functions.push(("main".into(), caller));
            }
            1 => {
                let mut a = Module::default();
                a.imports = imports;
                a.functions.push(("caller".into(), caller));
                root.submodules.push(("a".into(), a));
                root.functions.push(("main".into(), func(&[], vec![call("a.caller", vec![])])));
            }
            _ => {
                // the caller lives in a module whose own name contains `super`
                let mut a = Module::default();
                a.imports = imports;
                a.functions.push(("caller".into(), caller));
                root.submodules.push(("superduper".into(), a));
                root.functions.push(("main".into(), func(&[], vec![call("superduper.caller", vec![])])));
            }
        }
        root.submodules.push((name.into(), m));
        root
    }
}


/// `main` is a function of the root module like any other: a call to it (static, or through a
/// function value) compiles to a jump to a label that exists (the programs stop with VarNotFound
/// before the call is reached; the structural check is what matters here).
pub struct FCallMain;

impl Family for FCallMain {
    fn name(&self) -> &'static str {
        "F-call-main"
    }
    fn len(&self) -> u64 {
        4
    }
    fn case(&self, idx: u64) -> Module {
        let dynamic = idx % 2 == 1;
        let from_module = idx / 2 == 1;
        let the_call = if dynamic { C::DynCall(b(C::Function("main".into())), vec![]) } else { call("main", vec![]) };
        let f = func(&[], vec![native("log", vec![s("ran:f")]), sg("_sink", the_call), C::Return(b(int(1)))]);
        let main = func(&[], vec![native("log", vec![s("ran:main")]), sg("depth", bin(BinOp::Add, rv("depth"), int(1))), C::IfTrue(b(bin(BinOp::Less, rv("depth"), int(2))), b(sg("_sink", call(if from_module { "a.f" } else { "f" }, vec![]))))]);
        let mut root = Module::default();
        root.functions.push(("main".into(), main));
        if from_module {
            let mut a = Module::default();
            a.functions.push(("f".into(), f));
            root.submodules.push(("a".into(), a));
        } else {
            root.functions.push(("f".into(), f));
        }
        root
    }
}

/// Two call sites in one program whose (calling module path, called name) pairs read the same once
/// the segments are written one after the other without a separator: root calling `abf`, module `a`
/// calling `bf`, module `a.b` calling `f`, module `ab` calling `f` (and a few that do not collide).
/// Every ordered pair of call sites, static and through a function value. Each must reach the
/// function its own module's lookup designates (or fail to compile on its own account) whatever the
/// other call site is.
pub struct FConcat;

impl FConcat {
    /// (module path of the call site, called name)
    const SITES: [(&'static str, &'static str); 9] = [("", "abf"), ("a", "bf"), ("a", "f"), ("a", "b.f"), ("a.b", "f"), ("ab", "f"), ("ab", "bf"), ("a.b", "bf"), ("", "ab.f")];
}

impl Family for FConcat {
    fn name(&self) -> &'static str {
        "F-concat"
    }
    fn len(&self) -> u64 {
        (Self::SITES.len() * Self::SITES.len() * 2) as u64
    }
    fn case(&self, idx: u64) -> Module {
        let n = Self::SITES.len() as u64;
        let first = Self::SITES[(idx % n) as usize];
        let second = Self::SITES[((idx / n) % n) as usize];
        let dynamic = idx / (n * n) == 1;
        let mut ab2 = Module::default(); // a.b
        ab2.functions.push(("f".into(), tagged("a.b.f")));
        let mut a = Module::default();
        a.functions.push(("f".into(), tagged("a.f")));
        a.functions.push(("bf".into(), tagged("a.bf")));
        let mut ab = Module::default(); // the sibling called `ab`
        ab.functions.push(("f".into(), tagged("ab.f")));
        ab.functions.push(("bf".into(), tagged("ab.bf")));
        let mut root = Module::default();
        let mut main_cards = Vec::new();
        for (k, (site, name)) in [first, second].into_iter().enumerate() {
            let the_call = if dynamic { C::DynCall(b(C::Function(name.to_string())), vec![]) } else { call(name, vec![]) };
            let cname = format!("c{k}");
            let caller = func(&[], vec![C::Return(b(the_call))]);
            let full = if site.is_empty() { cname.clone() } else { format!("{site}.{cname}") };
            match site {
                "" => root.functions.push((cname, caller)),
                "a" => a.functions.push((cname, caller)),
                "a.b" => ab2.functions.push((cname, caller)),
                _ => ab.functions.push((cname, caller)),
            }
            main_cards.push(sg(&format!("got{k}"), call(&full, vec![])));
        }
        root.functions.insert(0, ("main".into(), func(&[], main_cards)));
        root.functions.push(("abf".into(), tagged("abf")));
        a.submodules.push(("b".into(), ab2));
        root.submodules.push(("a".into(), a));
        root.submodules.push(("ab".into(), ab));
        root
    }
}
