//! More C01 families: F-limits (sizes), F-call (calling convention), F-array (the dedicated
//! inline-Array family, every value slot filled with an inline Array / CreateTable / Closure).

use crate::gen_basic::Family;
use crate::ir::*;

fn add(a: C, c: C) -> C {
    bin(BinOp::Add, a, c)
}
fn log2(name: &str, v: C) -> C {
    native("log2", vec![s(name), v])
}

// ------------------------------------------------------------------------------------------------

pub struct FLimits {
    pub max_globals: u64,
    pub max_locals: u64,
    pub max_str: u64,
    pub max_depth: u64,
}

impl FLimits {
    pub fn quick() -> Self {
        FLimits { max_globals: 40, max_locals: 64, max_str: 300, max_depth: 40 }
    }
    pub fn thorough() -> Self {
        FLimits { max_globals: 300, max_locals: 200, max_str: 600, max_depth: 110 }
    }
    const LOOPS: [i64; 8] = [0, 1, 2, 10, 100, 200, 250, 300];
}

impl Family for FLimits {
    fn name(&self) -> &'static str {
        "F-limits"
    }
    fn len(&self) -> u64 {
        (self.max_globals + 1) + (self.max_locals + 1) + (self.max_str + 1) + (self.max_depth + 1) + 3 * Self::LOOPS.len() as u64
    }
    fn case(&self, idx: u64) -> Module {
        let mut i = idx;
        if i <= self.max_globals {
            // k distinct globals, all read back
            let k = i;
            let mut cards: Vec<C> = (0..k).map(|j| sg(&format!("g{j}"), int(j as i64 + 1))).collect();
            if k > 0 {
                cards.push(sg("sum", add(rv("g0"), rv(&format!("g{}", k - 1)))));
            }
            return module(vec![("main", func(&[], cards))]);
        }
        i -= self.max_globals + 1;
        if i <= self.max_locals {
            let k = i;
            let mut cards: Vec<C> = (0..k).map(|j| sv(&format!("l{j}"), int(j as i64 + 1))).collect();
            if k > 0 {
                cards.push(sg("first", rv("l0")));
                cards.push(sg("last", rv(&format!("l{}", k - 1))));
                cards.push(sg("mid", rv(&format!("l{}", k / 2))));
            }
            return module(vec![("main", func(&[], cards))]);
        }
        i -= self.max_locals + 1;
        if i <= self.max_str {
            let lit: String = (0..i).map(|j| (b'a' + (j % 26) as u8) as char).collect();
            return module(vec![("main", func(&[], vec![sg("g", C::Str(lit.clone())), sg("n", C::Len(b(rv("g")))), sv("t", C::CreateTable), sv(&"t.k".to_string(), C::Str(lit)), sg("back", rv("t.k"))]))]);
        }
        i -= self.max_str + 1;
        if i <= self.max_depth {
            // recursion to depth d
            let d = i as i64;
            let f = func(&["n"], vec![C::IfTrue(b(rv("n")), b(C::Return(b(add(call("f", vec![bin(BinOp::Sub, rv("n"), int(1))]), int(1)))))), C::Return(b(int(0)))]);
            return module(vec![("main", func(&[], vec![sg("g", call("f", vec![int(d)]))])), ("f", f)]);
        }
        i -= self.max_depth + 1;
        // loops whose body is a value-producing card in statement position
        let n = Self::LOOPS[(i % Self::LOOPS.len() as u64) as usize];
        let helper = ("one", func(&[], vec![C::Return(b(int(1)))]));
        let body = match i / Self::LOOPS.len() as u64 {
            0 => call("one", vec![]),
            1 => native("echo", vec![int(1)]),
            _ => comp(vec![sv("acc", add(rv("acc"), int(1))), call("one", vec![])]),
        };
        module(vec![
            ("main", func(&[], vec![sv("acc", int(0)), C::Repeat { n: b(int(n)), i: None, body: b(body) }, sg("done", int(1)), sg("acc", rv("acc"))])),
            helper,
        ])
    }
}

/// Loops that run longer than the value stack is high (256 by default): what an iteration leaves
/// behind must not add up. Body statements: a new local, an assignment, and value-producing cards
/// in statement position (whose value is discarded).
pub struct FLongLoop;

impl FLongLoop {
    const NS: [i64; 8] = [100, 250, 253, 254, 255, 256, 300, 1000];
    const BODIES: u64 = 6;
}

impl Family for FLongLoop {
    fn name(&self) -> &'static str {
        "F-long-loop"
    }
    fn len(&self) -> u64 {
        // bodies 0-1 (no value left behind) with every n; the value-producing statements with 100 and 300
        3 * 2 * (2 * Self::NS.len() as u64 + (Self::BODIES - 2) * 2)
    }
    fn case(&self, idx: u64) -> Module {
        let kind = idx % 3;
        let in_callee = (idx / 3) % 2 == 1;
        let j = idx / 6;
        let nn = Self::NS.len() as u64;
        let (body_kind, n) = if j < 2 * nn { (j / nn, Self::NS[(j % nn) as usize]) } else { (2 + (j - 2 * nn) / 2, [100, 300][((j - 2 * nn) % 2) as usize]) };
        let stmt = match body_kind {
            0 => sv("fresh", add(rv("acc"), int(1))),
            1 => sg("last", rv("acc")),
            2 => int(7),
            3 => call("f", vec![]),
            4 => rv("acc"),
            _ => native("echo", vec![rv("acc")]),
        };
        let body = C::Composite("body".into(), vec![stmt, sv("acc", add(rv("acc"), int(1)))]);
        let mut cards = vec![sv("acc", int(0))];
        match kind {
            0 => cards.push(C::Repeat { n: b(int(n)), i: None, body: b(body) }),
            1 => cards.push(C::While(b(bin(BinOp::Less, rv("acc"), int(n))), b(body))),
            _ => {
                cards.push(sv("t", C::CreateTable));
                cards.push(C::Repeat { n: b(int(n)), i: Some("j".into()), body: b(C::Append(b(rv("j")), b(rv("t")))) });
                cards.push(C::ForEach { i: None, k: None, v: Some("v".into()), iterable: b(rv("t")), body: b(body) });
            }
        }
        cards.push(sg("total", rv("acc")));
        let f = ("f", func(&[], vec![C::Return(b(int(1)))]));
        if in_callee {
            cards.push(C::Return(b(rv("acc"))));
            module(vec![("main", func(&[], vec![sv("m", int(1)), sg("r", call("work", vec![])), sg("m_after", rv("m"))])), ("work", func(&[], cards)), f])
        } else {
            module(vec![("main", func(&[], cards)), f])
        }
    }
}

// ------------------------------------------------------------------------------------------------

pub struct FCall;

impl FCall {
    const DIMS: [u64; 6] = [4, 9, 3, 2, 4, 3];
}

impl Family for FCall {
    fn name(&self) -> &'static str {
        "F-call"
    }
    fn len(&self) -> u64 {
        Self::DIMS.iter().product()
    }
    fn case(&self, idx: u64) -> Module {
        let mut i = idx;
        let mut d = [0u64; 6];
        for (k, n) in Self::DIMS.iter().enumerate() {
            d[k] = i % n;
            i /= n;
        }
        let (arity, ret_pos, call_kind, arg_kind, caller, recursion) = (d[0] as usize, d[1], d[2], d[3], d[4], d[5]);
        let params: Vec<String> = (0..arity).map(|j| format!("p{j}")).collect();
        // callee: logs its parameters in declaration order, then returns per ret_pos
        let mut body: Vec<C> = params.iter().map(|p| log2(p, rv(p))).collect();
        body.push(sv("loc", int(5)));
        let ret_val = if arity > 0 { rv("p0") } else { int(42) };
        match ret_pos {
            0 => {}
            1 => body.insert(0, C::Return(b(ret_val))),
            2 => body.push(C::Repeat { n: b(int(3)), i: Some("i".into()), body: b(C::IfTrue(b(rv("i")), b(C::Return(b(add(rv("i"), rv("loc"))))))) }),
            3 => body.push(C::IfElse(b(rv("loc")), b(C::Return(b(ret_val))), b(C::Return(b(int(-1)))))),
            4 => {
                body.push(C::Repeat { n: b(int(2)), i: None, body: b(sv("loc", add(rv("loc"), int(1)))) });
                body.push(C::Return(b(rv("loc"))));
            }
            // the function ends in a conditional of which exactly one branch returns, and the call
            // takes the other one: it runs off its end (nil) - and not into the next function
            5 => body.push(C::IfElse(b(int(0)), b(C::Return(b(ret_val))), b(sv("loc", int(6))))),
            6 => body.push(C::IfElse(b(rv("loc")), b(sv("loc", int(6))), b(C::Return(b(int(-1)))))),
            7 => body.push(C::IfTrue(b(int(0)), b(C::Return(b(ret_val))))),
            _ => body.push(comp(vec![sv("loc", int(7)), C::IfElse(b(int(0)), b(C::Return(b(ret_val))), b(sv("loc", int(6))))])),
        }
        let mut fns: Vec<(String, Func)> = Vec::new();
        match recursion {
            0 => fns.push(("callee".into(), Func { params: params.clone(), cards: body })),
            1 => {
                // self recursion of depth 2 through an extra counter parameter kept in a global
                let mut cards = vec![
                    sg("depth", add(rv("depth"), int(1))),
                    C::IfTrue(b(bin(BinOp::Less, rv("depth"), int(3))), b(sv_stmt_call("callee", &params))),
                ];
                cards.extend(body);
                fns.push(("callee".into(), Func { params: params.clone(), cards }));
            }
            _ => {
                let mut cards = vec![sg("depth", add(rv("depth"), int(1))), C::IfTrue(b(bin(BinOp::Less, rv("depth"), int(4))), b(sv_stmt_call("other", &params)))];
                cards.extend(body);
                fns.push(("callee".into(), Func { params: params.clone(), cards }));
                fns.push(("other".into(), Func { params: params.clone(), cards: vec![native("log", vec![s("other")]), C::Return(b(call("callee", params.iter().map(|p| rv(p)).collect())))] }));
            }
        }
        let args: Vec<C> = (0..arity)
            .map(|j| match (arg_kind, j) {
                (0, _) => int(10 + j as i64),
                (_, 0) => s("str"),
                (_, 1) => rv("tab"),
                _ => C::Nil,
            })
            .collect();
        let the_call = match call_kind {
            0 => call("callee", args),
            1 => C::DynCall(b(C::Function("callee".into())), args),
            _ => C::DynCall(b(C::GetProperty(b(rv("holder")), b(s("f")))), args),
        };
        let mut site = vec![sv("tab", C::Array(vec![int(1)])), sv("holder", C::CreateTable), sv("holder.f", C::Function("callee".into())), sv("mine", int(77)), sg("depth", int(0))];
        site.push(sg("res", the_call.clone()));
        site.push(log2("mine", rv("mine")));
        site.push(the_call); // once more in statement position
        site.push(log2("mine", rv("mine")));
        let main_cards = match caller {
            0 => site,
            1 => {
                fns.push(("caller".into(), Func { params: vec!["q".into()], cards: site }));
                vec![sv("outer", int(1)), call("caller", vec![int(9)]), log2("outer", rv("outer"))]
            }
            2 => vec![C::Repeat { n: b(int(2)), i: Some("it".into()), body: b(comp(site)) }],
            _ => vec![sv("outer", int(1)), sv("cl", C::Closure(vec![], site)), C::DynCall(b(rv("cl")), vec![]), log2("outer", rv("outer"))],
        };
        let mut functions = vec![("main".to_string(), func(&[], main_cards))];
        // a function that is never called sits behind every other one
        fns.push(("zz_never_called".into(), func(&[], vec![native("log", vec![s("zz_never_called ran")]), sg("intruder", int(1)), C::Return(b(int(99)))])));
        functions.extend(fns);
        Module { submodules: vec![], functions, imports: vec![] }
    }
}

fn sv_stmt_call(name: &str, params: &[String]) -> C {
    call(name, params.iter().map(|p| rv(p)).collect())
}

// ------------------------------------------------------------------------------------------------

/// Dedicated family: every value slot of every card kind filled with an inline `Array`,
/// `CreateTable` or `Closure`, each also inside taken / untaken conditionals.
pub struct FArray;

impl FArray {
    fn fillers() -> Vec<C> {
        vec![C::Array(vec![int(7), int(8)]), C::Array(vec![]), C::CreateTable, C::Closure(vec![], vec![C::Return(b(int(3)))])]
    }
    /// cards with value slots; `slot` selects which slot receives the filler, the others get `other`
    fn shapes(f: C, other: C, slot: usize) -> Vec<C> {
        let pick = |k: usize| if k == slot { f.clone() } else { other.clone() };
        let mut v = Vec::new();
        // all binary cards compile the same way (children, then one instruction): two representatives
        for op in [BinOp::Sub, BinOp::Less] {
            v.push(bin(op, pick(0), pick(1)));
        }
        v.push(C::Len(b(pick(0))));
        v.push(C::GetProperty(b(pick(0)), b(pick(1))));
        v.push(native("echo2", vec![pick(0), pick(1)]));
        v.push(call("two", vec![pick(0), pick(1)]));
        v.push(C::DynCall(b(C::Function("two".into())), vec![pick(0), pick(1)]));
        v.push(C::Array(vec![pick(0), pick(1)]));
        v
    }
}

impl Family for FArray {
    fn name(&self) -> &'static str {
        "F-array"
    }
    fn len(&self) -> u64 {
        let shapes = Self::shapes(C::Nil, C::Nil, 0).len() as u64;
        Self::fillers().len() as u64 * shapes * 2 * 4
    }
    fn case(&self, idx: u64) -> Module {
        let shapes_n = Self::shapes(C::Nil, C::Nil, 0).len() as u64;
        let mut i = idx;
        let filler = Self::fillers()[(i % Self::fillers().len() as u64) as usize].clone();
        i /= Self::fillers().len() as u64;
        let shape_i = (i % shapes_n) as usize;
        i /= shapes_n;
        let slot = (i % 2) as usize;
        i /= 2;
        let placement = i; // 0 plain, 1 after other locals, 2 inside taken IfTrue, 3 inside untaken IfTrue
        let e = Self::shapes(filler, rv("x"), slot)[shape_i].clone();
        let two = ("two", func(&["p", "q"], vec![C::Return(b(add(C::Len(b(rv("p"))), C::Len(b(rv("q"))))))]));
        let mut cards = vec![sv("x", int(5))];
        match placement {
            0 => cards.push(sg("g", e)),
            1 => {
                cards.push(sv("y", int(6)));
                cards.push(sg("g", e));
                cards.push(sg("y_after", rv("y")));
            }
            2 => cards.push(C::IfTrue(b(int(1)), b(sg("g", e)))),
            _ => cards.push(C::IfTrue(b(int(0)), b(sg("g", e)))),
        }
        cards.push(sv("z", int(9)));
        cards.push(sg("x_after", rv("x")));
        cards.push(sg("z_after", rv("z")));
        module(vec![("main", func(&[], cards)), two])
    }
}

// ------------------------------------------------------------------------------------------------

/// Infinite real literals (legal source values; YAML writes them as `.inf` / `-.inf`): as a global's
/// value, as either operand of a comparison / an addition, in a callee, in a submodule, next to
/// ordinary finite literals. No NaN anywhere, so the module has a well-defined image.
pub struct FInfLiterals;

impl FInfLiterals {
    const SHAPES: u64 = 6;
}

impl Family for FInfLiterals {
    fn name(&self) -> &'static str {
        "F-inf-literals"
    }
    fn len(&self) -> u64 {
        3 * Self::SHAPES
    }
    fn case(&self, idx: u64) -> Module {
        let lit = |k: u64| match k {
            0 => C::Float(f64::INFINITY),
            1 => C::Float(f64::NEG_INFINITY),
            _ => C::Float(f64::MAX),
        };
        let x = lit(idx % 3);
        let y = lit((idx + 1) % 3);
        match idx / 3 {
            0 => module(vec![("main", func(&[], vec![sg("g", x)]))]),
            1 => module(vec![("main", func(&[], vec![sg("g", bin(BinOp::Less, int(1), x.clone())), sg("h", bin(BinOp::Less, x, C::Float(1.5)))]))]),
            2 => module(vec![("main", func(&[], vec![sg("g", add(x, int(1))), sg("h", y)]))]),
            3 => module(vec![("main", func(&[], vec![sg("g", call("f", vec![int(2)]))])), ("f", func(&["p"], vec![C::Return(b(bin(BinOp::Less, rv("p"), x)))]))]),
            4 => module(vec![("main", func(&[], vec![sv("l", x), sg("g", bin(BinOp::Equals, rv("l"), y)), sg("h", rv("l"))]))]),
            _ => Module { submodules: vec![("a".into(), module(vec![("f", func(&[], vec![C::Return(b(x))]))]))], functions: vec![("main".into(), func(&[], vec![sg("g", call("a.f", vec![]))]))], imports: vec![] },
        }
    }
}
