//! C09 family: every small table x library function x callback x call path, plus non-table inputs.

use crate::gen_basic::Family;
use crate::ir::*;

fn sink(c: C) -> C {
    sg("_sink", c)
}

pub const FUNCTIONS: [&str; 10] = ["filter", "any", "map", "min", "max", "min_by_key", "max_by_key", "sorted", "sorted_by_key", "to_array"];

fn value_alphabet() -> Vec<C> {
    vec![C::Nil, int(0), int(1), C::Float(1.0), int(2), s("a"), s("bb"), C::CreateTable, C::Float(-0.0)]
}

/// callbacks for filter / any / map: parameters declared (k, v, i)
fn callbacks3() -> Vec<(&'static str, Vec<C>)> {
    let logit = sink(native("log3", vec![rv("k"), rv("v"), rv("i")]));
    vec![
        ("value", vec![logit.clone(), C::Return(b(rv("v")))]),
        ("key", vec![logit.clone(), C::Return(b(rv("k")))]),
        ("const", vec![C::Return(b(int(1)))]),
        ("gt1", vec![C::Return(b(bin(BinOp::Less, int(1), rv("v"))))]),
        ("alloc", vec![logit.clone(), C::Return(b(s("fresh")))]),
        ("nested", vec![C::Return(b(C::Len(b(call("std.to_array", vec![rv("v")])))))]),
        ("index", vec![C::Return(b(rv("i")))]),
        // function values are truthy
        ("funcval", vec![C::IfTrue(b(bin(BinOp::Less, rv("i"), int(1))), b(C::Return(b(C::NativeFunction("echo".into()))))), C::Return(b(C::Function("cb".into())))]),
    ]
}

/// key functions for *_by_key: parameters declared (key, value)
fn keyfns() -> Vec<(&'static str, Vec<C>)> {
    let logit = sink(native("log2", vec![rv("key"), rv("value")]));
    vec![
        ("value", vec![logit.clone(), C::Return(b(rv("value")))]),
        ("key", vec![C::Return(b(rv("key")))]),
        ("const", vec![C::Return(b(int(5)))]),
        ("neg", vec![C::Return(b(bin(BinOp::Sub, int(0), rv("value"))))]),
        ("len", vec![logit, C::Return(b(C::Len(b(rv("value")))))]),
        ("nested", vec![C::Return(b(C::Len(b(call("std.to_array", vec![rv("value")])))))]),
        // re-entrant use of the native-backed functions: the key function itself asks the library
        // for the maximum / the sorted rows / a keyed minimum of a *different* table that has at
        // least as many rows as any outer table of the family (a scratch area shared between the
        // outer and the inner call would be refilled under the outer call's feet)
        ("reenter-max", {
            let mut v = inner_table();
            v.push(sv("m", call("std.max", vec![rv("tt")])));
            v.push(C::Return(b(bin(BinOp::Sub, rv("value"), C::GetProperty(b(rv("m")), b(s("value")))))));
            v
        }),
        ("reenter-sorted", {
            let mut v = inner_table();
            v.push(sv("m", call("std.sorted", vec![rv("tt")])));
            v.push(C::Return(b(bin(BinOp::Add, rv("value"), C::Len(b(rv("m")))))));
            v
        }),
        ("reenter-min-by-key", {
            let mut v = inner_table();
            v.push(sv("m", call("std.min_by_key", vec![C::Function("kf2".into()), rv("tt")])));
            v.push(C::Return(b(bin(BinOp::Sub, C::GetProperty(b(rv("m")), b(s("value"))), rv("value")))));
            v
        }),
    ]
}

/// `tt = [30, 10, 20, 90, 40, 60]` built by statements (six rows: more than any outer table)
fn inner_table() -> Vec<C> {
    let mut v = vec![sv("tt", C::CreateTable)];
    for x in [30, 10, 20, 90, 40, 60] {
        v.push(C::Append(b(int(x)), b(rv("tt"))));
    }
    v
}

pub struct FStdlib {
    pub max_entries: u32,
}

impl FStdlib {
    fn tables(&self) -> u64 {
        let v = value_alphabet().len() as u64;
        (0..=self.max_entries).map(|n| v.pow(n)).sum()
    }
    const KEY_STYLES: u64 = 4;
    const VARIANTS: u64 = 9; // callback / key-function variants per function (those that take one)
    const PATHS: u64 = 4;
}

impl Family for FStdlib {
    fn name(&self) -> &'static str {
        "F-stdlib"
    }
    fn len(&self) -> u64 {
        self.tables() * Self::KEY_STYLES * FUNCTIONS.len() as u64 * Self::VARIANTS * Self::PATHS
    }
    fn case(&self, idx: u64) -> Module {
        let vals = value_alphabet();
        let mut i = idx;
        let ti = i % self.tables();
        i /= self.tables();
        let key_style = i % Self::KEY_STYLES;
        i /= Self::KEY_STYLES;
        let fname = FUNCTIONS[(i % FUNCTIONS.len() as u64) as usize];
        i /= FUNCTIONS.len() as u64;
        let variant = (i % Self::VARIANTS) as usize;
        i /= Self::VARIANTS;
        let path = i;
        build(&vals, ti, key_style, fname, variant, path)
    }
}

/// Truthiness and order at the small end of the reals: tables over {0.0, 1e-20, -3e-17, the
/// smallest subnormal, 0.1 + 0.2 - 0.3, 2.5}; every non-zero real is truthy however small.
pub struct FStdlibReals {
    pub max_entries: u32,
}

fn tiny_reals() -> Vec<C> {
    vec![C::Float(0.0), C::Float(1e-20), C::Float(-3e-17), C::Float(f64::from_bits(1)), C::Float(0.1 + 0.2 - 0.3), C::Float(2.5)]
}

impl FStdlibReals {
    fn tables(&self) -> u64 {
        let v = tiny_reals().len() as u64;
        (0..=self.max_entries).map(|n| v.pow(n)).sum()
    }
}

impl Family for FStdlibReals {
    fn name(&self) -> &'static str {
        "F-stdlib-reals"
    }
    fn len(&self) -> u64 {
        self.tables() * FUNCTIONS.len() as u64 * 2
    }
    fn case(&self, idx: u64) -> Module {
        let ti = idx % self.tables();
        let i = idx / self.tables();
        let fname = FUNCTIONS[(i % FUNCTIONS.len() as u64) as usize];
        // the value itself / its negation (key functions), the value / the key (callbacks)
        let variant = if i / FUNCTIONS.len() as u64 == 0 { 0 } else if fname.ends_with("by_key") { 3 } else { 1 };
        build(&tiny_reals(), ti, 1, fname, variant, 0)
    }
}

/// Integers beyond the range an f64 represents exactly (neighbours that round to one f64): order,
/// minimum / maximum and sorting of integers are exact, whatever shortcut through reals a
/// numeric-only table might invite.
pub struct FStdlibBigInts {
    pub max_entries: u32,
}

fn big_ints() -> Vec<C> {
    let p53 = 1i64 << 53;
    vec![int(i64::MAX), int(i64::MAX - 1), int(p53 + 1), int(p53), int(0), int(-p53 - 1), int(i64::MIN + 1), int(i64::MIN)]
}

impl FStdlibBigInts {
    fn tables(&self) -> u64 {
        let v = big_ints().len() as u64;
        (0..=self.max_entries).map(|n| v.pow(n)).sum()
    }
}

impl Family for FStdlibBigInts {
    fn name(&self) -> &'static str {
        "F-stdlib-bigints"
    }
    fn len(&self) -> u64 {
        self.tables() * FUNCTIONS.len() as u64
    }
    fn case(&self, idx: u64) -> Module {
        let ti = idx % self.tables();
        let i = idx / self.tables();
        let fname = FUNCTIONS[(i % FUNCTIONS.len() as u64) as usize];
        // key functions / callbacks return the value itself
        build(&big_ints(), ti, 1, fname, 0, 0)
    }
}

/// Tables beyond the sizes the exhaustive families reach (20 .. 100 entries: past every small-input
/// shortcut a sort or a selection may take), filled from value patterns with many ties, out of order;
/// every library function, value / negated-value key functions, string and integer keys.
pub struct FStdlibLarge;

impl FStdlibLarge {
    const SIZES: [usize; 6] = [20, 21, 32, 33, 50, 100];
    const PATTERNS: u64 = 4;
}

impl Family for FStdlibLarge {
    fn name(&self) -> &'static str {
        "F-stdlib-large"
    }
    fn len(&self) -> u64 {
        Self::SIZES.len() as u64 * Self::PATTERNS * 2 * FUNCTIONS.len() as u64 * 2
    }
    fn case(&self, idx: u64) -> Module {
        let mut i = idx;
        let n = Self::SIZES[(i % Self::SIZES.len() as u64) as usize];
        i /= Self::SIZES.len() as u64;
        let pattern = i % Self::PATTERNS;
        i /= Self::PATTERNS;
        let key_style = i % 2;
        i /= 2;
        let fname = FUNCTIONS[(i % FUNCTIONS.len() as u64) as usize];
        let second = i / FUNCTIONS.len() as u64 == 1;
        let variant = if !second { 0 } else if fname.ends_with("by_key") { 3 } else if matches!(fname, "filter" | "any" | "map") { 3 } else { 0 };
        let entries: Vec<C> = (0..n)
            .map(|j| match pattern {
                0 => int(((n - 1 - j) % 5) as i64),
                1 => int(((j * 7 + 3) % 4) as i64),
                2 => int(1 - (j % 2) as i64),
                _ => {
                    if j % 2 == 1 {
                        C::Float(((n - j) % 3) as f64)
                    } else {
                        int(((n - j) % 3) as i64)
                    }
                }
            })
            .collect();
        build_from(entries, key_style, fname, variant, 0)
    }
}

fn build(vals: &[C], mut ti: u64, key_style: u64, fname: &str, variant: usize, path: u64) -> Module {
    let v = vals.len() as u64;
    // decode the table: number of entries, then the values
    let mut n = 0u32;
    while ti >= v.pow(n) {
        ti -= v.pow(n);
        n += 1;
    }
    let mut entries: Vec<C> = Vec::new();
    for _ in 0..n {
        entries.push(vals[(ti % v) as usize].clone());
        ti /= v;
    }
    build_from(entries, key_style, fname, variant, path)
}

fn build_from(entries: Vec<C>, key_style: u64, fname: &str, variant: usize, path: u64) -> Module {
    {
        let n = entries.len();
        let key_of = |j: usize| -> C {
            match key_style {
                0 => int(j as i64),
                1 => s(&format!("k{j}")),
                // the keys 0..n-1 inserted in descending order: an array by key set, not by order
                3 => int(n as i64 - 1 - j as i64),
                _ => [int(7), s("s"), C::Float(1.5), C::Nil][j % 4].clone(),
            }
        };
        let mut main: Vec<C> = vec![sv("t", C::CreateTable)];
        for (j, e) in entries.iter().enumerate() {
            // tables as values are bound by a statement first
            if matches!(e, C::CreateTable) {
                main.push(sv(&format!("e{j}"), C::CreateTable));
                main.push(C::SetProperty(b(rv(&format!("e{j}"))), b(rv("t")), b(key_of(j))));
            } else {
                main.push(C::SetProperty(b(e.clone()), b(rv("t")), b(key_of(j))));
            }
        }
        let takes_cb = matches!(fname, "filter" | "any" | "map");
        let takes_key = fname.ends_with("by_key");
        let mut fns: Vec<(String, Func)> = Vec::new();
        let mut cb_expr: Option<C> = None;
        if takes_cb {
            let cbs = callbacks3();
            let (_, body) = cbs[variant % cbs.len()].clone();
            if variant == 6 {
                // a closure that counts its calls in a captured variable
                main.push(sv("count", int(0)));
                let mut cbody = vec![sv("count", bin(BinOp::Add, rv("count"), int(1)))];
                cbody.push(C::Return(b(rv("v"))));
                cb_expr = Some(C::Closure(vec!["k".into(), "v".into(), "i".into()], cbody));
            } else {
                fns.push(("cb".into(), Func { params: vec!["k".into(), "v".into(), "i".into()], cards: body }));
                cb_expr = Some(C::Function("cb".into()));
            }
        } else if takes_key {
            let kfs = keyfns();
            let (_, body) = kfs[variant % kfs.len()].clone();
            fns.push(("kf".into(), Func { params: vec!["key".into(), "value".into()], cards: body }));
            fns.push(("kf2".into(), Func { params: vec!["key".into(), "value".into()], cards: vec![C::Return(b(bin(BinOp::Sub, int(0), rv("value"))))] }));
            cb_expr = Some(C::Function("kf".into()));
        }
        // the iterable: the table, or (variant-dependent, for functions without a callback) a non-table
        let iterable = if !takes_cb && !takes_key && variant >= 2 {
            match variant {
                2 => C::Nil,
                3 => int(3),
                4 => C::Float(0.5),
                5 => s("str"),
                _ => C::Function("main2".into()),
            }
        } else {
            rv("t")
        };
        if matches!(iterable, C::Function(_)) {
            fns.push(("main2".into(), func(&[], vec![])));
        }
        let mut imports = Vec::new();
        let called = match path {
            0 => format!("std.{fname}"),
            1 => {
                imports.push(format!("std.{fname}"));
                fname.to_string()
            }
            2 => {
                imports.push("std".to_string() + ".row_to_value");
                format!("std.{fname}")
            }
            _ => format!("std.{fname}"),
        };
        let mut args: Vec<C> = Vec::new();
        if let Some(cb) = cb_expr.clone() {
            if matches!(cb, C::Closure(..)) {
                main.push(sv("cbv", cb));
                args.push(rv("cbv"));
            } else {
                args.push(cb);
            }
        }
        args.push(iterable);
        main.push(sg("res", call(&called, args)));
        main.push(sg("input_after", rv("t")));
        if variant == 6 && takes_cb {
            main.push(sg("calls", rv("count")));
        }
        let mut functions = vec![("main".to_string(), func(&[], main))];
        functions.extend(fns);
        if path == 3 {
            // the root module defines functions named like the library's own helpers and entry
            // points: the library must keep using its own
            for (name, params) in [("row_to_value", vec!["row"]), ("sorted_by_key", vec!["f", "t"]), ("min_by_key", vec!["f", "t"]), ("max_by_key", vec!["f", "t"]), ("filter", vec!["f", "t"]), ("to_array", vec!["t"])] {
                functions.push((name.to_string(), func(&params, vec![sg("decoy_ran", s(name)), C::Return(b(s("decoy")))])));
            }
        }
        Module { submodules: vec![], functions, imports }
    }
}
