//! Deterministic delta-debugging of IR modules: a failing program is reduced to a canonical small
//! failing program with the same divergence class; the finding key is derived from that program.

use crate::ir::*;

/// all single-step reductions of a card list (delete one card)
fn list_variants(cards: &[C]) -> Vec<Vec<C>> {
    let mut out = Vec::new();
    for i in 0..cards.len() {
        let mut v = cards.to_vec();
        v.remove(i);
        out.push(v);
    }
    out
}

/// single-step reductions of one card: hoist a child, simplify to a literal, reduce a child
fn card_variants(c: &C) -> Vec<C> {
    let mut out = Vec::new();
    // replace by a child of the same "valueness"
    for ch in c.children() {
        if ch.produces_value() == c.produces_value() {
            out.push(ch.clone());
        }
    }
    // statement -> its body
    match c {
        C::IfTrue(_, b) | C::IfFalse(_, b) | C::While(_, b) => out.push((**b).clone()),
        C::IfElse(_, t, e) => {
            out.push((**t).clone());
            out.push((**e).clone());
        }
        C::Repeat { body, .. } | C::ForEach { body, .. } => out.push((**body).clone()),
        _ => {}
    }
    if c.produces_value() && !matches!(c, C::Int(1) | C::Nil) {
        out.push(C::Int(1));
        out.push(C::Nil);
    }
    if !c.produces_value() && !matches!(c, C::Comment(_)) {
        out.push(C::Comment(String::new()));
    }
    // list-like cards: drop one element
    match c {
        C::Composite(ty, cards) => {
            for v in list_variants(cards) {
                out.push(C::Composite(ty.clone(), v));
            }
            if cards.len() == 1 {
                out.push(cards[0].clone());
            }
        }
        C::Array(cards) => {
            for v in list_variants(cards) {
                out.push(C::Array(v));
            }
        }
        C::Closure(p, cards) => {
            for v in list_variants(cards) {
                out.push(C::Closure(p.clone(), v));
            }
        }
        C::Repeat { n, i: Some(_), body } => out.push(C::Repeat { n: n.clone(), i: None, body: body.clone() }),
        C::ForEach { i, k, v, iterable, body } => {
            if i.is_some() {
                out.push(C::ForEach { i: None, k: k.clone(), v: v.clone(), iterable: iterable.clone(), body: body.clone() });
            }
            if k.is_some() {
                out.push(C::ForEach { i: i.clone(), k: None, v: v.clone(), iterable: iterable.clone(), body: body.clone() });
            }
            if v.is_some() {
                out.push(C::ForEach { i: i.clone(), k: k.clone(), v: None, iterable: iterable.clone(), body: body.clone() });
            }
        }
        _ => {}
    }
    // recurse: reduce one child in place
    let n = c.children().len();
    for idx in 0..n {
        let child = c.children()[idx].clone();
        for v in card_variants(&child) {
            let mut cc = c.clone();
            *cc.children_mut()[idx] = v;
            out.push(cc);
        }
    }
    out
}

fn module_variants(m: &Module) -> Vec<Module> {
    let mut out = Vec::new();
    // drop a non-main function / a submodule / an import
    for i in 0..m.functions.len() {
        if m.functions[i].0 != "main" {
            let mut mm = m.clone();
            mm.functions.remove(i);
            out.push(mm);
        }
    }
    for i in 0..m.submodules.len() {
        let mut mm = m.clone();
        mm.submodules.remove(i);
        out.push(mm);
    }
    for i in 0..m.imports.len() {
        let mut mm = m.clone();
        mm.imports.remove(i);
        out.push(mm);
    }
    for fi in 0..m.functions.len() {
        let f = &m.functions[fi].1;
        for v in list_variants(&f.cards) {
            let mut mm = m.clone();
            mm.functions[fi].1.cards = v;
            out.push(mm);
        }
        for ci in 0..f.cards.len() {
            for v in card_variants(&f.cards[ci]) {
                let mut mm = m.clone();
                mm.functions[fi].1.cards[ci] = v;
                out.push(mm);
            }
        }
    }
    for si in 0..m.submodules.len() {
        for v in module_variants(&m.submodules[si].1) {
            let mut mm = m.clone();
            mm.submodules[si].1 = v;
            out.push(mm);
        }
    }
    out
}

/// Greedy fixpoint: take the first strictly smaller variant that still fails with the same class.
/// `budget` bounds the number of `still_fails` evaluations.
pub fn shrink(m: &Module, class: &str, still_fails: &mut dyn FnMut(&Module) -> Option<String>, budget: usize) -> Module {
    let mut cur = m.clone();
    let mut used = 0usize;
    // safety net for cases whose evaluation is slow (a panicking compiler costs ~0.2 s per
    // evaluation): the shrink stops after 3 s of CPU time with what it has (CPU, not wall: the
    // shrunk witness is the finding key and must not depend on how busy the machine is)
    let started = crate::engine::self_cpu();
    loop {
        let mut progressed = false;
        let size = cur.size() + cur.functions.len() + cur.submodules.len() + cur.imports.len();
        for v in module_variants(&cur) {
            let vs = v.size() + v.functions.len() + v.submodules.len() + v.imports.len();
            if vs > size || (vs == size && !simpler(&v, &cur)) {
                continue;
            }
            used += 1;
            if used > budget || (crate::engine::self_cpu() - started).as_secs() >= 3 {
                return cur;
            }
            if still_fails(&v).as_deref() == Some(class) {
                cur = v;
                progressed = true;
                break;
            }
        }
        if !progressed {
            return cur;
        }
    }
}

/// same size: prefer literals over other leaves (keeps the greedy loop well-founded)
fn simpler(a: &Module, b: &Module) -> bool {
    fn weight(m: &Module) -> usize {
        let mut w = 0;
        m.walk_cards(&mut |c| {
            w += match c {
                C::Int(1) => 0,
                C::Nil => 1,
                C::Comment(s) if s.is_empty() => 0,
                C::Int(_) | C::Float(_) | C::Str(_) | C::Comment(_) => 2,
                C::Repeat { i: Some(_), .. } => 4,
                C::ForEach { i, k, v, .. } => 3 + [i, k, v].iter().filter(|x| x.is_some()).count(),
                _ => 3,
            }
        });
        w
    }
    weight(a) < weight(b)
}

/// compact one-line rendering used in finding descriptions
pub fn render(m: &Module) -> String {
    fn r(c: &C) -> String {
        let ch = |c: &C| c.children().iter().map(|x| r(x)).collect::<Vec<_>>().join(", ");
        match c {
            C::Nil => "nil".into(),
            C::Int(i) => format!("{i}"),
            C::Float(f) => format!("{f:?}"),
            C::Str(s) => format!("{s:?}"),
            C::ReadVar(n) => n.clone(),
            C::SetVar(n, v) => format!("{n} = {}", r(v)),
            C::SetGlobal(n, v) => format!("global {n} = {}", r(v)),
            C::Call(n, _) => format!("{n}({})", ch(c)),
            C::CallNative(n, _) => format!("native {n}({})", ch(c)),
            C::Function(n) => format!("&{n}"),
            C::NativeFunction(n) => format!("&native {n}"),
            C::Closure(p, _) => format!("closure({}){{{}}}", p.join(","), ch(c).replace(", ", "; ")),
            C::Repeat { i, .. } => format!("Repeat[{}]({})", i.clone().unwrap_or_default(), ch(c)),
            C::ForEach { i, k, v, .. } => format!(
                "ForEach[{},{},{}]({})",
                i.clone().unwrap_or_default(),
                k.clone().unwrap_or_default(),
                v.clone().unwrap_or_default(),
                ch(c)
            ),
            C::Composite(_, _) => format!("{{{}}}", ch(c).replace(", ", "; ")),
            C::Comment(_) => "#".into(),
            other => format!("{}({})", other.kind(), ch(other)),
        }
    }
    fn rm(m: &Module, ns: &str, out: &mut Vec<String>) {
        if !m.imports.is_empty() {
            out.push(format!("{ns}imports {:?}", m.imports));
        }
        for (n, f) in m.functions.iter() {
            out.push(format!("{ns}{n}({}): {}", f.params.join(","), f.cards.iter().map(r).collect::<Vec<_>>().join("; ")));
        }
        for (n, s) in m.submodules.iter() {
            rm(s, &format!("{ns}{n}."), out);
        }
    }
    let mut out = Vec::new();
    rm(m, "", &mut out);
    out.join(" | ")
}
