//! C18 family (re-entry half): host functions that push 0..2 arguments and call back into the
//! script through `run_function`, with every kind of callee and callee body.

use crate::gen_basic::Family;
use crate::ir::*;

fn add(a: C, c: C) -> C {
    bin(BinOp::Add, a, c)
}
fn log2(name: &str, v: C) -> C {
    sg("_sink", native("log2", vec![s(name), v]))
}

pub struct FReenter;

impl FReenter {
    const DIMS: [u64; 5] = [3, 6, 7, 3, 3];
}

impl Family for FReenter {
    fn name(&self) -> &'static str {
        "F-reenter"
    }
    fn len(&self) -> u64 {
        Self::DIMS.iter().product()
    }
    fn case(&self, idx: u64) -> Module {
        let mut i = idx;
        let mut d = [0u64; 5];
        for (k, n) in Self::DIMS.iter().enumerate() {
            d[k] = i % n;
            i /= n;
        }
        let (nargs, callee_kind, body_kind, site, extra) = (d[0] as usize, d[1], d[2], d[3], d[4]);
        let params: Vec<String> = (0..nargs).map(|j| format!("p{j}")).collect();
        let reenter = format!("reenter{nargs}");
        let p_sum = params.iter().fold(int(0), |acc, p| add(acc, rv(p)));
        // the callee body
        let mut body: Vec<C> = params.iter().map(|p| log2(p, rv(p))).collect();
        match body_kind {
            0 => body.push(C::Return(b(add(p_sum.clone(), int(100))))),                                   // plain return
            1 => body.push(C::IfTrue(b(int(1)), b(C::Return(b(add(p_sum.clone(), int(200))))))),              // early return from a branch
            2 => body.push(sv("unused", p_sum.clone())),                                                  // falls off the end: nil
            3 => body.push(sg("_sink", C::GetProperty(b(int(1)), b(int(2))))),                            // raises an error
            4 => {
                // calls the same host function again, to depth 3
                body.push(sg("depth", add(rv("depth"), int(1))));
                let mut args: Vec<C> = vec![C::Function("callee".into())];
                args.extend(params.iter().map(|p| rv(p)));
                body.push(C::IfTrue(b(bin(BinOp::Less, rv("depth"), int(3))), b(C::Return(b(add(native(&reenter, args), int(1)))))));
                body.push(C::Return(b(int(7))));
            }
            6 => {
                // the program is aborted from inside the callee, with locals and a loop alive
                body.push(sv("l", int(5)));
                body.push(C::Repeat { n: b(int(3)), i: Some("i".into()), body: b(C::IfTrue(b(rv("i")), b(C::Abort))) });
                body.push(C::Return(b(int(9))));
            }
            _ => {
                // returns from inside a loop with locals alive
                body.push(sv("l", int(5)));
                body.push(C::Repeat { n: b(int(3)), i: Some("i".into()), body: b(C::IfTrue(b(rv("i")), b(C::Return(b(add(rv("l"), rv("i"))))))) });
            }
        }
        let mut fns: Vec<(String, Func)> = vec![("callee".into(), Func { params: params.clone(), cards: body.clone() })];
        let mut pre: Vec<C> = vec![sg("depth", int(0)), sv("canary", int(5)), sv("cap", int(40))];
        // the function value handed to the host function
        let fval = match callee_kind {
            0 => C::Function("callee".into()),
            1 => {
                // closure capturing a caller variable
                let mut cbody = vec![sv("cap", add(rv("cap"), int(1)))];
                cbody.extend(body.iter().filter(|c| !matches!(c, C::IfTrue(..)) || body_kind != 4).cloned());
                pre.push(sv("cl", C::Closure(params.clone(), cbody)));
                rv("cl")
            }
            2 => {
                if nargs == 1 {
                    C::NativeFunction("echo".into())
                } else if nargs == 2 {
                    C::NativeFunction("echo2".into())
                } else {
                    C::NativeFunction("log0".into())
                }
            }
            3 => int(3),      // not a function
            4 => s("string"), // not a function
            _ => C::Function("std.row_to_value".into()),
        };
        let mut args: Vec<C> = vec![fval];
        for j in 0..nargs {
            args.push(int(10 + j as i64));
        }
        if callee_kind == 5 && nargs != 2 {
            // the library function takes two parameters: only meaningful with two pushed arguments
            args = vec![C::Function("callee".into())];
            for j in 0..nargs {
                args.push(int(10 + j as i64));
            }
        }
        let the_call = native(&reenter, args);
        let mut site_cards = pre;
        site_cards.push(sg("res", the_call.clone()));
        site_cards.push(log2("canary", rv("canary")));
        site_cards.push(log2("cap", rv("cap")));
        if extra == 1 {
            // once more, as an operand with a live temporary below it
            site_cards.push(sg("res2", add(int(1000), the_call.clone())));
        } else if extra == 2 {
            site_cards.push(sv("tmp", the_call));
            site_cards.push(log2("tmp", rv("tmp")));
        }
        site_cards.push(log2("canary", rv("canary")));
        let main = match site {
            0 => site_cards,
            1 => {
                fns.push(("site".into(), Func { params: vec!["q".into()], cards: site_cards }));
                vec![sv("outer", int(1)), sg("_sink", call("site", vec![int(9)])), log2("outer", rv("outer"))]
            }
            _ => vec![sv("outer", int(1)), C::Repeat { n: b(int(2)), i: Some("round".into()), body: b(comp(site_cards)) }, log2("outer", rv("outer"))],
        };
        let mut functions = vec![("main".to_string(), func(&[], main))];
        functions.extend(fns);
        Module { submodules: vec![], functions, imports: vec![] }
    }
}


/// A host function that calls back into the script and swallows the callee's error (returns nil
/// instead): whatever the callee was doing when it failed, the caller continues with its value
/// stack, call stack and variables as they were.
pub struct FTryCall;

impl FTryCall {
    const DIMS: [u64; 3] = [10, 4, 3];
}

impl Family for FTryCall {
    fn name(&self) -> &'static str {
        "F-trycall"
    }
    fn len(&self) -> u64 {
        Self::DIMS.iter().product()
    }
    fn case(&self, idx: u64) -> Module {
        let mut callee = idx % 10;
        let site = (idx / 10) % 4;
        let host = idx / 40;
        // host 2: pushes one argument and does not take it back after a failure - correct as long
        // as the value is callable, because a failed call consumes its arguments like a successful one
        let nargs = if host == 0 { 0 } else { 1 };
        if host == 2 && callee == 8 {
            callee = 0;
        }
        let params: Vec<String> = (0..nargs).map(|j| format!("p{j}")).collect();
        let boom = || sg("_sink", C::GetProperty(b(int(1)), b(int(2))));
        let mut fns: Vec<(String, Func)> = Vec::new();
        let mut pre: Vec<C> = vec![sv("canary", int(5)), sv("cap", int(40))];
        let fval: C = match callee {
            0 => {
                fns.push(("cb".into(), Func { params: params.clone(), cards: vec![C::Return(b(int(7)))] }));
                C::Function("cb".into())
            }
            1 => {
                fns.push(("cb".into(), Func { params: params.clone(), cards: vec![boom(), C::Return(b(int(7)))] }));
                C::Function("cb".into())
            }
            2 => {
                fns.push(("cb".into(), Func { params: params.clone(), cards: vec![sv("l1", int(1)), sv("l2", s("local string")), boom(), C::Return(b(int(7)))] }));
                C::Function("cb".into())
            }
            3 => {
                fns.push(("cb".into(), Func { params: params.clone(), cards: vec![sv("l1", int(1)), C::Repeat { n: b(int(3)), i: Some("i".into()), body: b(comp(vec![sv("in_loop", rv("i")), C::IfTrue(b(rv("i")), b(boom()))])) }, C::Return(b(int(7)))] }));
                C::Function("cb".into())
            }
            4 => {
                fns.push(("cb".into(), Func { params: params.clone(), cards: vec![sv("l1", int(1)), C::Return(b(add(int(1), call("inner", vec![int(2)]))))] }));
                fns.push(("inner".into(), func(&["x"], vec![sv("deep", int(3)), boom(), C::Return(b(rv("x")))])));
                C::Function("cb".into())
            }
            5 => {
                pre.push(sv("cl", C::Closure(params.clone(), vec![sv("cap", add(rv("cap"), int(1))), sv("mine", int(2)), boom(), C::Return(b(int(7)))])));
                rv("cl")
            }
            6 => C::NativeFunction("fail".into()),
            7 => {
                // a callee that wants more arguments than the host pushed
                fns.push(("cb".into(), func(&["a", "bb", "c"], vec![C::Return(b(int(7)))])));
                C::Function("cb".into())
            }
            8 => int(3),
            _ => {
                // fails with the value stack of the callee full of temporaries
                fns.push(("cb".into(), Func { params: params.clone(), cards: vec![sg("_sink", add(int(1), add(int(2), add(int(3), C::GetProperty(b(int(1)), b(int(2))))))), C::Return(b(int(7)))] }));
                C::Function("cb".into())
            }
        };
        let name = match host {
            0 => "try_call",
            1 => "try_call1",
            _ => "try_call1_keep",
        };
        let mut args = vec![fval];
        if nargs == 1 {
            args.push(int(11));
        }
        let the_call = native(name, args);
        let mut cards = pre;
        match site {
            0 => cards.push(sg("res", add(int(1000), the_call))),
            1 => cards.push(log2("res", add(add(int(1), int(2)), add(int(1000), the_call)))),
            2 => {
                cards.push(sv("acc", int(0)));
                cards.push(C::Repeat { n: b(int(3)), i: Some("round".into()), body: b(comp(vec![sv("tmp", the_call), sv("acc", add(rv("acc"), add(rv("round"), int(1))))])) });
                cards.push(log2("acc", rv("acc")));
            }
            _ => {
                cards.push(sv("t", C::CreateTable));
                cards.push(C::SetProperty(b(the_call), b(rv("t")), b(s("k"))));
                cards.push(log2("t", rv("t")));
            }
        }
        cards.push(log2("canary", rv("canary")));
        cards.push(log2("cap", rv("cap")));
        let mut functions = vec![("main".to_string(), func(&[], cards))];
        functions.extend(fns);
        Module { submodules: vec![], functions, imports: vec![] }
    }
}
