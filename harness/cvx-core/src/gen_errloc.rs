//! C15 family: base programs with calls at depth 0..2, modules, closures, loops and natives; for
//! every value-producing card position and every injectable error the card is replaced by an
//! expression that raises the error when it is reached.

use crate::gen_basic::Family;
use crate::ir::*;

fn add(a: C, c: C) -> C {
    bin(BinOp::Add, a, c)
}

pub fn bases() -> Vec<Module> {
    let b1 = module(vec![
        ("main", func(&[], vec![sv("a", int(1)), sg("g", add(rv("a"), int(2))), sg("r", call("f1", vec![rv("a"), int(3)])), sg("after", int(1))])),
        ("f1", func(&["x", "y"], vec![sv("t", bin(BinOp::Sub, rv("x"), rv("y"))), C::Return(b(call("f2", vec![rv("t")])))])),
        ("f2", func(&["z"], vec![C::IfTrue(b(rv("z")), b(C::Return(b(bin(BinOp::Mul, rv("z"), int(2)))))), C::Return(b(C::Len(b(rv("z")))))])),
    ]);
    let sub = Module { submodules: vec![], functions: vec![("deep".into(), func(&["d"], vec![sv("w", add(rv("d"), int(1))), C::Return(b(add(rv("w"), int(1))))]))], imports: vec![] };
    let m = Module {
        submodules: vec![("sub".into(), sub)],
        functions: vec![
            ("pad".into(), func(&[], vec![C::Return(b(int(0)))])),
            ("run".into(), func(&["p"], vec![sv("q", call("helper", vec![rv("p")])), C::Return(b(call("sub.deep", vec![rv("q")])))])),
            ("helper".into(), func(&["h"], vec![C::Return(b(add(rv("h"), int(1))))])),
        ],
        imports: vec![],
    };
    let b2 = Module { submodules: vec![("m".into(), m)], functions: vec![("main".into(), func(&[], vec![sv("l", int(2)), sg("r", call("m.run", vec![add(rv("l"), int(3))]))]))], imports: vec![] };
    let b3 = module(vec![
        (
            "main",
            func(
                &[],
                vec![
                    sv("base", int(10)),
                    sv("c", C::Closure(vec!["x".into()], vec![sv("y", add(rv("x"), rv("base"))), C::Return(b(add(rv("y"), int(1))))])),
                    sg("r", C::DynCall(b(rv("c")), vec![add(int(1), int(2))])),
                    sg("r2", C::DynCall(b(C::Function("f1".into())), vec![rv("base"), add(int(4), int(5))])),
                    sg("n", C::DynCall(b(C::NativeFunction("echo2".into())), vec![add(int(1), int(1)), int(2)])),
                ],
            ),
        ),
        ("f1", func(&["x", "y"], vec![C::Return(b(bin(BinOp::Sub, rv("x"), rv("y"))))])),
    ]);
    let b4 = module(vec![(
        "main",
        func(
            &[],
            vec![
                sv("acc", int(0)),
                C::Repeat { n: b(add(int(1), int(1))), i: Some("i".into()), body: b(sv("acc", add(rv("acc"), rv("i")))) },
                sv("t", C::CreateTable),
                C::Append(b(add(rv("acc"), int(1))), b(rv("t"))),
                C::ForEach { i: None, k: Some("k".into()), v: Some("v".into()), iterable: b(rv("t")), body: b(sg("g", add(rv("v"), rv("k")))) },
                C::While(b(bin(BinOp::Less, rv("acc"), int(3))), b(sv("acc", add(rv("acc"), int(1))))),
                C::IfElse(b(bin(BinOp::Less, int(1), rv("acc"))), b(sg("h", add(rv("acc"), int(1)))), b(sg("h", int(0)))),
            ],
        ),
    )]);
    let b5 = module(vec![(
        "main",
        func(
            &[],
            vec![
                sv("t", C::CreateTable),
                C::SetProperty(b(add(int(1), int(1))), b(rv("t")), b(s("k"))),
                sg("g", C::GetProperty(b(rv("t")), b(s("k")))),
                sg("_sink", native("echo2", vec![rv("g"), add(rv("g"), int(1))])),
                sg("row", C::Get(b(rv("t")), b(bin(BinOp::Sub, int(1), int(1))))),
                sg("p", C::PopTable(b(rv("t")))),
                sg("len", C::Len(b(rv("t")))),
                sv("t.x", C::Not(b(int(0)))),
                sg("neg", bin(BinOp::And, int(1), bin(BinOp::Or, int(0), int(1)))),
            ],
        ),
    )]);
    // modules that consist of one function of one card each, chained by argument-less calls: every
    // card of the program has the same function index and the same card index, only the namespace
    // tells them apart
    let one = |name: &str, card: C, subs: Vec<(String, Module)>| -> (String, Module) { (name.to_string(), Module { submodules: subs, functions: vec![("only".into(), func(&[], vec![card]))], imports: vec![] }) };
    let b6 = Module {
        submodules: vec![
            one("a", call("b.only", vec![]), vec![]),
            one("b", call("c.only", vec![]), vec![]),
            one("c", call("d.e.only", vec![]), vec![]),
            one("d", native("log0", vec![]), vec![one("e", call("f.only", vec![]), vec![])]),
            one("f", native("log0", vec![]), vec![]),
        ],
        functions: vec![("main".into(), func(&[], vec![call("a.only", vec![])]))],
        imports: vec![],
    };
    let plain = vec![b1, b2, b3, b4, b5, b6];
    // the same programs with Comment cards in front of and between the cards of every function,
    // closure and composite body: comments emit no code but count in card indices
    let mut all = plain.clone();
    all.extend(plain.iter().map(with_comments));
    all
}

fn with_comments(m: &Module) -> Module {
    fn interleave(cards: &[C]) -> Vec<C> {
        let mut out = Vec::new();
        for (i, c) in cards.iter().enumerate() {
            if i % 2 == 0 {
                out.push(C::Comment(format!("note {i}")));
            }
            out.push(card(c));
        }
        out
    }
    fn card(c: &C) -> C {
        let mut c = c.clone();
        match &mut c {
            C::Closure(_, cards) => *cards = interleave(cards),
            C::Composite(_, cards) if !cards.is_empty() && !cards.last().map(|x| x.produces_value()).unwrap_or(false) => *cards = interleave(cards),
            _ => {
                for ch in c.children_mut() {
                    *ch = card(ch);
                }
            }
        }
        c
    }
    Module {
        submodules: m.submodules.iter().map(|(n, s)| (n.clone(), with_comments(s))).collect(),
        functions: m.functions.iter().map(|(n, f)| (n.clone(), Func { params: f.params.clone(), cards: interleave(&f.cards) })).collect(),
        imports: m.imports.clone(),
    }
}

pub fn injections() -> Vec<C> {
    vec![
        native("no_such_native", vec![]),
        C::GetProperty(b(int(1)), b(int(0))),
        C::DynCall(b(int(3)), vec![]),
        native("fail", vec![int(1)]),
        C::PopTable(b(s("not a table"))),
    ]
}

/// (function path in the module tree, card path) of every value-producing card
pub fn value_positions(m: &Module) -> Vec<(Vec<String>, usize, Vec<u32>)> {
    fn cards(c: &C, ns: &[String], f: usize, path: &mut Vec<u32>, out: &mut Vec<(Vec<String>, usize, Vec<u32>)>) {
        if c.produces_value() {
            out.push((ns.to_vec(), f, path.clone()));
        }
        for (i, ch) in c.children().into_iter().enumerate() {
            path.push(i as u32);
            cards(ch, ns, f, path, out);
            path.pop();
        }
    }
    fn go(m: &Module, ns: &mut Vec<String>, out: &mut Vec<(Vec<String>, usize, Vec<u32>)>) {
        for (fi, (_, f)) in m.functions.iter().enumerate() {
            for (ci, c) in f.cards.iter().enumerate() {
                cards(c, ns, fi, &mut vec![ci as u32], out);
            }
        }
        for (n, s) in m.submodules.iter() {
            ns.push(n.clone());
            go(s, ns, out);
            ns.pop();
        }
    }
    let mut out = Vec::new();
    go(m, &mut Vec::new(), &mut out);
    out
}

pub fn replace_at(m: &mut Module, ns: &[String], f: usize, path: &[u32], with: C) {
    let mut cur = m;
    for n in ns {
        cur = &mut cur.submodules.iter_mut().find(|(x, _)| x == n).unwrap().1;
    }
    let func = &mut cur.functions[f].1;
    let mut c = &mut func.cards[path[0] as usize];
    for i in &path[1..] {
        c = c.children_mut().into_iter().nth(*i as usize).unwrap();
    }
    *c = with;
}

pub struct FErrInject {
    cases: Vec<(usize, (Vec<String>, usize, Vec<u32>), usize)>,
}

impl FErrInject {
    pub fn new() -> Self {
        let mut cases = Vec::new();
        for (bi, base) in bases().iter().enumerate() {
            for pos in value_positions(base) {
                for inj in 0..injections().len() {
                    cases.push((bi, pos.clone(), inj));
                }
            }
        }
        FErrInject { cases }
    }
}

impl Default for FErrInject {
    fn default() -> Self {
        Self::new()
    }
}

impl Family for FErrInject {
    fn name(&self) -> &'static str {
        "F-errinject"
    }
    fn len(&self) -> u64 {
        self.cases.len() as u64
    }
    fn case(&self, idx: u64) -> Module {
        let (bi, (ns, f, path), inj) = &self.cases[idx as usize];
        let mut m = bases()[*bi].clone();
        replace_at(&mut m, ns, *f, path, injections()[*inj].clone());
        m
    }
}

/// compile errors attributable to a card: the card is replaced by one the compiler must reject
pub struct FCompileErrLoc {
    cases: Vec<(usize, (Vec<String>, usize, Vec<u32>), usize)>,
}

pub fn bad_cards() -> Vec<C> {
    vec![call("no_such_function", vec![]), C::Function("no_such_function".into()), rv(""), C::DynCall(b(C::Function("nope.nope".into())), vec![])]
}

impl FCompileErrLoc {
    pub fn new() -> Self {
        let mut cases = Vec::new();
        for (bi, base) in bases().iter().enumerate() {
            for pos in value_positions(base) {
                for inj in 0..bad_cards().len() {
                    cases.push((bi, pos.clone(), inj));
                }
            }
        }
        FCompileErrLoc { cases }
    }
    /// where the compiler has to point for case `idx`
    pub fn expected(&self, idx: u64) -> (Vec<String>, usize, Vec<u32>) {
        let (_, (ns, f, path), inj) = &self.cases[idx as usize];
        let mut p = path.clone();
        if *inj == 3 {
            p.push(0); // the bad card is the function child of the injected DynCall
        }
        (ns.clone(), *f, p)
    }
}

impl Default for FCompileErrLoc {
    fn default() -> Self {
        Self::new()
    }
}

impl Family for FCompileErrLoc {
    fn name(&self) -> &'static str {
        "F-compile-errloc"
    }
    fn len(&self) -> u64 {
        self.cases.len() as u64
    }
    fn case(&self, idx: u64) -> Module {
        let (bi, (ns, f, path), inj) = &self.cases[idx as usize];
        let mut m = bases()[*bi].clone();
        replace_at(&mut m, ns, *f, path, bad_cards()[*inj].clone());
        m
    }
}
