//! Program families for C01 (also reused by C04, C10, C11, C15): F-expr and F-stmt.
//! Every family is an index -> program bijection over a product of explicitly listed finite
//! dimensions, so a shard is a range of integers and a replay is one integer.

use crate::ir::*;
use crate::refsem::{default_natives, observe, run_reference, Ob};

/// host configuration of a run (plain data; the harness turns it into the real VM setup)
#[derive(Clone, Debug, PartialEq, serde::Serialize, serde::Deserialize)]
pub struct CfgLite {
    pub max_instr: u64,
    pub mem_limit: usize,
    pub stack: usize,
    pub call_stack: usize,
}

impl Default for CfgLite {
    fn default() -> Self {
        CfgLite { max_instr: 100_000, mem_limit: 400 * 1024, stack: 256, call_stack: 256 }
    }
}

pub trait Family: Sync + Send {
    fn name(&self) -> &'static str;
    fn len(&self) -> u64;
    fn case(&self, idx: u64) -> Module;
    /// non-default host configuration for this case
    fn cfg(&self, _idx: u64) -> Option<CfgLite> {
        None
    }
}

// ------------------------------------------------------------------------------------------------
// F-expr
// ------------------------------------------------------------------------------------------------

/// the 15-leaf operand alphabet; table operands are variables bound by the prologue
pub fn leaves() -> Vec<C> {
    vec![
        C::Nil,
        int(0),
        int(1),
        int(2),
        int(-1),
        int(i64::MIN),
        int(i64::MAX),
        C::Float(0.5),
        C::Float(2.0),
        s(""),
        s("a"),
        s("bb"),
        rv("e"),
        rv("t1"),
        rv("t2"),
        rv("x"),
        // function values (truthy, length 0)
        rv("fv"),
        rv("nv"),
        rv("cv"),
    ]
}

fn expr_prologue() -> Vec<C> {
    vec![
        sv("e", C::CreateTable),
        sv("t1", C::Array(vec![int(1)])),
        sv("t2", C::Array(vec![int(1), int(2)])),
        sv("x", int(7)),
        sv("fv", C::Function("id".into())),
        sv("nv", C::NativeFunction("echo".into())),
        sv("cv", C::Closure(vec![], vec![C::Return(b(int(1)))])),
    ]
}

fn expr_program(e: C) -> Module {
    let mut cards = expr_prologue();
    cards.push(sg("g", e));
    // the operand tables must be unchanged, or changed exactly as the language says
    cards.push(sg("ge", rv("e")));
    cards.push(sg("g1", rv("t1")));
    cards.push(sg("g2", rv("t2")));
    module(vec![("main", func(&[], cards)), ("id", func(&["p"], vec![C::Return(b(rv("p")))]))])
}

/// all depth-1 expressions over the leaves
fn depth1(l: &[C]) -> Vec<C> {
    let mut out = Vec::new();
    for op in ALL_BINOPS {
        for a in l {
            for c in l {
                out.push(bin(op, a.clone(), c.clone()));
            }
        }
    }
    for a in l {
        out.push(C::Not(b(a.clone())));
        out.push(C::Len(b(a.clone())));
        out.push(C::PopTable(b(a.clone())));
    }
    for a in l {
        for c in l {
            out.push(C::GetProperty(b(a.clone()), b(c.clone())));
            out.push(C::Get(b(a.clone()), b(c.clone())));
        }
    }
    out
}

pub struct FExpr {
    d1: Vec<C>,
    /// one representative expression per distinct depth-1 result (reference outcome of `g`)
    reps: Vec<C>,
}

impl FExpr {
    pub fn new() -> Self {
        let l = leaves();
        let d1 = depth1(&l);
        let mut reps: Vec<C> = Vec::new();
        let mut seen: Vec<(String, Option<Ob>)> = Vec::new();
        let natives = default_natives();
        for e in l.iter().chain(d1.iter()) {
            // side-effecting operands (PopTable) are not composed further
            let mut has_pop = false;
            e.walk(&mut |c| {
                if matches!(c, C::PopTable(_)) {
                    has_pop = true;
                }
            });
            if has_pop {
                continue;
            }
            let o = run_reference(&expr_program(e.clone()), &natives);
            if o.undefined.is_some() || o.result != "Ok" {
                continue;
            }
            let key = (o.result.clone(), o.globals.get("g").cloned());
            if !seen.contains(&key) {
                seen.push(key);
                reps.push(e.clone());
            }
        }
        let _ = observe;
        FExpr { d1, reps }
    }

    fn n1(&self) -> u64 {
        self.d1.len() as u64
    }
    fn n2(&self) -> u64 {
        let r = self.reps.len() as u64;
        ALL_BINOPS.len() as u64 * r * r + 3 * r
    }
}

impl Default for FExpr {
    fn default() -> Self {
        Self::new()
    }
}

impl Family for FExpr {
    fn name(&self) -> &'static str {
        "F-expr"
    }
    fn len(&self) -> u64 {
        self.n1() + self.n2()
    }
    fn case(&self, idx: u64) -> Module {
        if idx < self.n1() {
            return expr_program(self.d1[idx as usize].clone());
        }
        let mut i = idx - self.n1();
        let r = self.reps.len() as u64;
        let nb = ALL_BINOPS.len() as u64 * r * r;
        if i < nb {
            let op = ALL_BINOPS[(i / (r * r)) as usize];
            i %= r * r;
            let a = self.reps[(i / r) as usize].clone();
            let c = self.reps[(i % r) as usize].clone();
            return expr_program(bin(op, a, c));
        }
        i -= nb;
        let a = self.reps[(i % r) as usize].clone();
        expr_program(match i / r {
            0 => C::Not(b(a)),
            1 => C::Len(b(a)),
            _ => C::GetProperty(b(rv("t2")), b(a)),
        })
    }
}

// ------------------------------------------------------------------------------------------------
// F-stmt: context x ordered tuples of focus statements
// ------------------------------------------------------------------------------------------------

#[derive(Clone)]
pub struct Stmt {
    pub card: C,
    /// local names this statement declares at the level it is placed (W2)
    pub declares: Vec<&'static str>,
    /// only meaningful inside a callee / closure (Return)
    pub needs_function: bool,
}

fn st(card: C) -> Stmt {
    Stmt { card, declares: vec![], needs_function: false }
}
fn decl(card: C, names: &[&'static str]) -> Stmt {
    Stmt { card, declares: names.to_vec(), needs_function: false }
}
fn fun_only(card: C) -> Stmt {
    Stmt { card, declares: vec![], needs_function: true }
}

fn add(a: C, c: C) -> C {
    bin(BinOp::Add, a, c)
}

/// The focus statement alphabet. Visible when a statement runs: locals a, b (ints), t (table
/// [7,8]), global g (100); helper functions f1(x) -> x+1 (logs x), f2(x, y) -> x-y.
pub fn stmt_alphabet() -> Vec<Stmt> {
    let lt = |a: C, c: C| bin(BinOp::Less, a, c);
    vec![
        // plain assignment / declaration
        st(sv("a", int(5))),
        st(sv("a", add(rv("a"), rv("b")))),
        st(sv("b", rv("a"))),
        decl(sv("n", int(5)), &["n"]),
        decl(sv("n", rv("a")), &["n"]),
        decl(sv("m", s("x")), &["m"]),
        // globals
        st(sg("g", rv("a"))),
        st(sg("h", add(rv("g"), int(1)))),
        st(sv("a", rv("g"))),
        // tables: card form and dotted form
        st(C::SetProperty(b(rv("a")), b(rv("t")), b(s("k")))),
        st(sv("t.k", rv("b"))),
        st(sv("a", rv("t.k"))),
        st(C::Append(b(rv("b")), b(rv("t")))),
        st(sv("a", C::PopTable(b(rv("t"))))),
        st(sv("a", C::Len(b(rv("t"))))),
        st(sv("a", C::GetProperty(b(C::Get(b(rv("t")), b(int(0)))), b(s("value"))))),
        st(sv("a", C::GetProperty(b(rv("t")), b(int(1))))),
        decl(sv("u", C::Array(vec![rv("a"), rv("b")])), &["u"]),
        decl(sv("u", C::CreateTable), &["u"]),
        // loops
        st(C::Repeat { n: b(int(0)), i: None, body: b(sv("a", int(77))) }),
        st(C::Repeat { n: b(int(1)), i: Some("i".into()), body: b(sv("a", add(rv("a"), rv("i")))) }),
        st(C::Repeat { n: b(int(3)), i: None, body: b(sv("a", add(rv("a"), int(1)))) }),
        st(C::Repeat { n: b(int(2)), i: Some("i".into()), body: b(comp(vec![sv("q", add(rv("i"), int(10))), sg("h", rv("q"))])) }),
        st(C::Repeat { n: b(rv("b")), i: Some("a".into()), body: b(sg("h", rv("a"))) }),
        st(C::ForEach { i: Some("i".into()), k: Some("k".into()), v: Some("v".into()), iterable: b(rv("t")), body: b(sv("a", add(rv("a"), rv("v")))) }),
        st(C::ForEach { i: None, k: Some("k".into()), v: None, iterable: b(rv("t")), body: b(sg("h", rv("k"))) }),
        st(C::ForEach { i: None, k: None, v: Some("v".into()), iterable: b(C::CreateTable), body: b(sv("a", int(78))) }),
        // loop variables are ordinary per-iteration variables: assigning them does not steer the loop
        st(C::Repeat { n: b(int(3)), i: Some("i".into()), body: b(comp(vec![sv("i", add(rv("i"), int(1))), sv("a", add(rv("a"), rv("i")))])) }),
        st(C::Repeat { n: b(int(3)), i: Some("i".into()), body: b(comp(vec![sv("a", add(rv("a"), rv("i"))), sv("i", int(7))])) }),
        st(C::ForEach {
            i: Some("i".into()),
            k: Some("k".into()),
            v: Some("v".into()),
            iterable: b(rv("t")),
            body: b(comp(vec![sv("v", add(rv("v"), int(1))), sv("i", int(5)), sv("k", int(0)), sv("a", add(rv("a"), rv("v")))])),
        }),
        st(C::While(b(lt(rv("a"), int(3))), b(sv("a", add(rv("a"), int(1)))))),
        st(C::While(b(int(0)), b(sv("a", int(79))))),
        // a loop body is a scope: a local it introduces does not outlive the iteration, whether or
        // not the body ever runs
        decl(comp(vec![C::While(b(int(0)), b(sv("wl", int(1)))), sv("n", int(6))]), &["n"]),
        decl(comp(vec![C::While(b(lt(rv("a"), int(3))), b(comp(vec![sv("wl", add(rv("a"), int(1))), sv("a", rv("wl"))]))), sv("n", rv("a"))]), &["n"]),
        // conditionals
        st(C::IfTrue(b(rv("a")), b(sv("b", int(9))))),
        st(C::IfTrue(b(int(0)), b(sv("b", int(9))))),
        st(C::IfFalse(b(rv("a")), b(sv("b", int(8))))),
        st(C::IfFalse(b(C::Nil), b(sv("b", int(8))))),
        st(C::IfElse(b(lt(rv("a"), rv("b"))), b(sv("a", int(10))), b(sv("b", int(20))))),
        st(C::IfElse(b(int(0)), b(sv("a", int(10))), b(sv("b", int(20))))),
        // function values in boolean positions are truthy
        st(C::IfElse(b(C::Function("f1".into())), b(sv("a", int(11))), b(sv("b", int(21))))),
        st(C::IfTrue(b(C::NativeFunction("echo".into())), b(sv("b", int(12))))),
        st(sv("a", C::Not(b(C::NativeFunction("log".into()))))),
        fun_only(C::IfElse(b(rv("a")), b(sv("b", int(30))), b(C::Return(b(rv("b")))))),
        // early exits
        fun_only(C::Return(b(rv("a")))),
        fun_only(C::IfTrue(b(rv("a")), b(C::Return(b(rv("b")))))),
        fun_only(C::Repeat { n: b(int(2)), i: None, body: b(C::Return(b(add(rv("a"), int(1))))) }),
        fun_only(C::ForEach { i: None, k: None, v: Some("v".into()), iterable: b(rv("t")), body: b(C::Return(b(rv("v")))) }),
        st(C::IfTrue(b(int(0)), b(C::Abort))),
        st(C::Abort),
        // calls: statement position (value unused) and value position
        st(call("f1", vec![rv("a")])),
        st(sv("a", call("f1", vec![rv("b")]))),
        st(sv("a", call("f2", vec![rv("a"), rv("b")]))),
        st(C::DynCall(b(C::Function("f1".into())), vec![rv("a")])),
        st(sv("b", C::DynCall(b(C::Function("f2".into())), vec![int(10), rv("b")]))),
        st(native("log", vec![rv("a")])),
        st(sv("a", native("echo", vec![rv("b")]))),
        st(native("log2", vec![rv("a"), rv("b")])),
        st(sv("b", C::DynCall(b(C::NativeFunction("echo2".into())), vec![rv("a"), rv("b")]))),
        // composites, comments, bare expressions
        st(comp(vec![sv("a", int(2)), sv("b", rv("a"))])),
        st(C::Comment("note".into())),
        st(rv("a")),
        st(int(5)),
        st(s("lit")),
        // closures (shallow; C06 goes deep)
        decl(sv("c", C::Closure(vec![], vec![sv("a", add(rv("a"), int(1)))])), &["c"]),
        decl(sv("c", C::Closure(vec!["p".into()], vec![C::Return(b(add(rv("p"), rv("b"))))])), &["c"]),
        st(C::DynCall(b(rv("c")), vec![])),
        st(sv("a", C::DynCall(b(rv("c")), vec![int(3)]))),
        // errors raised by a statement
        st(sv("a", C::GetProperty(b(rv("a")), b(int(0))))),
        st(native("nosuchnative", vec![])),
        st(C::DynCall(b(rv("a")), vec![])),
    ]
}

#[derive(Clone, Copy, Debug, PartialEq, Eq)]
pub enum Ctx {
    Main,
    /// callee with k arguments, p earlier locals in the caller
    Callee(u8, u8),
    /// callee called from a callee
    Callee2,
    RepeatBody,
    ForEachBody,
    WhileBody,
    IfTrue,
    IfElseThen,
    IfElseElse,
    Composite,
    ClosureBody,
}

pub fn contexts() -> Vec<Ctx> {
    vec![
        Ctx::Main,
        Ctx::Callee(0, 0),
        Ctx::Callee(1, 0),
        Ctx::Callee(2, 1),
        Ctx::Callee(0, 2),
        Ctx::Callee(2, 2),
        Ctx::Callee2,
        Ctx::RepeatBody,
        Ctx::ForEachBody,
        Ctx::WhileBody,
        Ctx::IfTrue,
        Ctx::IfElseThen,
        Ctx::IfElseElse,
        Ctx::Composite,
        Ctx::ClosureBody,
    ]
}

impl Ctx {
    /// may a statement that declares a new local be placed directly in this context (W2)?
    pub fn allows_decl(self) -> bool {
        !matches!(self, Ctx::IfTrue | Ctx::IfElseThen | Ctx::IfElseElse)
    }
    pub fn is_function(self) -> bool {
        matches!(self, Ctx::Callee(..) | Ctx::Callee2 | Ctx::ClosureBody)
    }
}

fn log_var(name: &str) -> C {
    native("log2", vec![s(name), rv(name)])
}

fn helpers() -> Vec<(&'static str, Func)> {
    vec![
        ("f1", func(&["x"], vec![native("log", vec![rv("x")]), C::Return(b(add(rv("x"), int(1))))])),
        ("f2", func(&["x", "y"], vec![C::Return(b(bin(BinOp::Sub, rv("x"), rv("y"))))])),
    ]
}

fn prologue() -> Vec<C> {
    vec![sv("a", int(1)), sv("b", int(2)), sv("t", C::Array(vec![int(7), int(8)]))]
}

/// log every variable that is visible where the epilogue is placed
fn epilogue(extra: &[&str]) -> Vec<C> {
    let mut v = vec![log_var("a"), log_var("b"), log_var("t")];
    for n in extra {
        v.push(log_var(n));
    }
    v.push(sg("end_a", rv("a")));
    v
}

/// Places `body` (focus statements) into the context. `declared` = names the body declared at its
/// own level (they are visible to the epilogue that follows the body in the same scope).
pub fn in_context(ctx: Ctx, body: Vec<C>, declared: &[&str]) -> Module {
    let mut inner: Vec<C> = Vec::new();
    inner.extend(body);
    inner.extend(epilogue(declared));
    let mut fns = helpers();
    let main_cards: Vec<C> = match ctx {
        Ctx::Main => {
            let mut c = vec![sg("g", int(100))];
            c.extend(prologue());
            c.extend(inner);
            c
        }
        Ctx::Callee(k, p) => {
            let params: Vec<String> = (0..k).map(|i| format!("x{i}")).collect();
            let mut fc = prologue();
            for prm in params.iter() {
                fc.push(native("log2", vec![s(prm), rv(prm)]));
            }
            fc.extend(inner);
            fns.push(("fctx", Func { params, cards: fc }));
            let mut c = vec![sg("g", int(100))];
            for i in 0..p {
                c.push(sv(&format!("c{i}"), int(11 + i as i64)));
            }
            c.push(sg("r", call("fctx", (0..k).map(|i| int(31 + i as i64)).collect())));
            for i in 0..p {
                c.push(log_var(&format!("c{i}")));
            }
            c
        }
        Ctx::Callee2 => {
            let mut fc = prologue();
            fc.extend(inner);
            fns.push(("fctx", Func { params: vec!["x0".into()], cards: fc }));
            fns.push((
                "mid",
                func(&["y"], vec![sv("l", int(21)), sv("r2", call("fctx", vec![rv("y")])), log_var("l"), C::Return(b(rv("r2")))]),
            ));
            vec![sg("g", int(100)), sv("c0", int(11)), sg("r", call("mid", vec![int(31)])), log_var("c0")]
        }
        Ctx::RepeatBody => {
            let mut c = vec![sg("g", int(100))];
            c.extend(prologue());
            c.push(C::Repeat { n: b(int(2)), i: Some("it".into()), body: b(comp(inner)) });
            c.extend(epilogue(&[]));
            c
        }
        Ctx::ForEachBody => {
            let mut c = vec![sg("g", int(100))];
            c.extend(prologue());
            c.push(sv("src", C::Array(vec![int(40), int(50)])));
            c.push(C::ForEach { i: None, k: Some("fk".into()), v: Some("fv".into()), iterable: b(rv("src")), body: b(comp(inner)) });
            c.extend(epilogue(&[]));
            c
        }
        Ctx::WhileBody => {
            let mut c = vec![sg("g", int(100))];
            c.extend(prologue());
            c.push(sv("w", int(0)));
            let mut wb = vec![sv("w", add(rv("w"), int(1)))];
            wb.extend(inner);
            c.push(C::While(b(bin(BinOp::Less, rv("w"), int(2))), b(comp(wb))));
            c.extend(epilogue(&[]));
            c
        }
        Ctx::IfTrue => {
            let mut c = vec![sg("g", int(100))];
            c.extend(prologue());
            c.push(C::IfTrue(b(int(1)), b(comp(inner))));
            c.extend(epilogue(&[]));
            c
        }
        Ctx::IfElseThen => {
            let mut c = vec![sg("g", int(100))];
            c.extend(prologue());
            c.push(C::IfElse(b(int(1)), b(comp(inner)), b(sv("a", int(-5)))));
            c.extend(epilogue(&[]));
            c
        }
        Ctx::IfElseElse => {
            let mut c = vec![sg("g", int(100))];
            c.extend(prologue());
            c.push(C::IfElse(b(int(0)), b(sv("a", int(-5))), b(comp(inner))));
            c.extend(epilogue(&[]));
            c
        }
        Ctx::Composite => {
            let mut c = vec![sg("g", int(100))];
            c.extend(prologue());
            c.push(comp(inner));
            c.extend(epilogue(declared));
            c
        }
        Ctx::ClosureBody => {
            // the closure has its own a, b, t (declared inside), the enclosing main has others
            let mut body = prologue();
            body.extend(inner);
            vec![
                sg("g", int(100)),
                sv("outer", int(55)),
                sv("cl", C::Closure(vec!["x0".into()], body)),
                sg("r", C::DynCall(b(rv("cl")), vec![int(31)])),
                log_var("outer"),
            ]
        }
    };
    let mut functions = vec![("main", func(&[], main_cards))];
    functions.extend(fns);
    module(functions)
}

pub struct FStmt {
    pub alphabet: Vec<Stmt>,
    pub contexts: Vec<Ctx>,
    /// number of focus statements per program
    pub arity: u32,
}

impl FStmt {
    pub fn new(arity: u32) -> Self {
        FStmt { alphabet: stmt_alphabet(), contexts: contexts(), arity }
    }
}

impl Family for FStmt {
    fn name(&self) -> &'static str {
        match self.arity {
            1 => "F-stmt1",
            2 => "F-stmt2",
            _ => "F-stmt3",
        }
    }
    fn len(&self) -> u64 {
        self.contexts.len() as u64 * (self.alphabet.len() as u64).pow(self.arity)
    }
    fn case(&self, idx: u64) -> Module {
        let n = self.alphabet.len() as u64;
        let per_ctx = n.pow(self.arity);
        let ctx = self.contexts[(idx / per_ctx) as usize];
        let mut i = idx % per_ctx;
        let mut body = Vec::new();
        let mut declared: Vec<&str> = Vec::new();
        for _ in 0..self.arity {
            let s = &self.alphabet[(i % n) as usize];
            i /= n;
            // outside the region: a declaration where the context does not allow one, a Return
            // outside a function -> the statement is replaced by a comment (the case stays in the
            // enumeration so that the index space is a plain product)
            let ok = (s.declares.is_empty() || ctx.allows_decl()) && (!s.needs_function || ctx.is_function());
            if ok {
                body.push(s.card.clone());
                for d in s.declares.iter() {
                    if !declared.contains(d) {
                        declared.push(d);
                    }
                }
            } else {
                body.push(C::Comment("out-of-region statement elided".into()));
            }
        }
        in_context(ctx, body, &declared)
    }
}

// ------------------------------------------------------------------------------------------------
// two-level contexts: a context placed inside a loop / callee of another
// ------------------------------------------------------------------------------------------------

pub struct FNest {
    pub alphabet: Vec<Stmt>,
}

impl FNest {
    pub fn new() -> Self {
        FNest { alphabet: stmt_alphabet() }
    }
    fn outers() -> Vec<&'static str> {
        vec!["repeat", "foreach", "callee", "closure", "iftrue", "while"]
    }
    fn inners() -> Vec<&'static str> {
        vec!["repeat", "foreach", "iftrue", "ifelse-else", "composite", "while"]
    }
}

impl Default for FNest {
    fn default() -> Self {
        Self::new()
    }
}

impl Family for FNest {
    fn name(&self) -> &'static str {
        "F-nest"
    }
    fn len(&self) -> u64 {
        (Self::outers().len() * Self::inners().len() * self.alphabet.len()) as u64
    }
    fn case(&self, idx: u64) -> Module {
        let n = self.alphabet.len() as u64;
        let s = &self.alphabet[(idx % n) as usize];
        let rest = idx / n;
        let ni = Self::inners().len() as u64;
        let inner = Self::inners()[(rest % ni) as usize];
        let outer = Self::outers()[(rest / ni) as usize];
        let inner_allows = matches!(inner, "repeat" | "foreach" | "composite");
        let outer_allows = matches!(outer, "repeat" | "foreach" | "callee" | "closure");
        let in_function = matches!(outer, "callee" | "closure");
        let decl_ok = if inner == "composite" { outer_allows } else { inner_allows };
        let ok = (s.declares.is_empty() || decl_ok) && (!s.needs_function || in_function);
        let focus = if ok { s.card.clone() } else { C::Comment("out-of-region statement elided".into()) };
        let declared: Vec<&str> = if ok { s.declares.clone() } else { vec![] };
        let mut body = vec![focus];
        body.extend(epilogue(&declared));
        let wrapped = match inner {
            "repeat" => C::Repeat { n: b(int(2)), i: Some("j".into()), body: b(comp(body)) },
            "foreach" => C::ForEach { i: Some("fi".into()), k: None, v: Some("fv".into()), iterable: b(C::Array(vec![int(40), int(50)])), body: b(comp(body)) },
            "iftrue" => C::IfTrue(b(int(1)), b(comp(body))),
            "ifelse-else" => C::IfElse(b(C::Nil), b(sv("a", int(-5))), b(comp(body))),
            "while" => {
                let mut wb = vec![sv("w2", add(rv("w2"), int(1)))];
                wb.extend(body);
                C::While(b(bin(BinOp::Less, rv("w2"), int(2))), b(comp(wb)))
            }
            _ => comp(body),
        };
        // the inline Array of the "foreach" inner context is bound by a statement first (see DESIGN §3.3)
        let mut pre = prologue();
        pre.push(sv("w2", int(0)));
        let wrapped = match (&wrapped, inner) {
            (C::ForEach { i, k, v, body, .. }, "foreach") => {
                pre.push(sv("src2", C::Array(vec![int(40), int(50)])));
                C::ForEach { i: i.clone(), k: k.clone(), v: v.clone(), iterable: b(rv("src2")), body: body.clone() }
            }
            _ => wrapped,
        };
        let mut level1 = pre;
        level1.push(wrapped);
        level1.extend(epilogue(&[]));
        let mut fns = helpers();
        let main_cards = match outer {
            "repeat" => vec![sg("g", int(100)), C::Repeat { n: b(int(2)), i: Some("oi".into()), body: b(comp(level1)) }],
            "foreach" => vec![
                sg("g", int(100)),
                sv("osrc", C::Array(vec![int(1), int(2)])),
                C::ForEach { i: None, k: Some("ok".into()), v: Some("ov".into()), iterable: b(rv("osrc")), body: b(comp(level1)) },
            ],
            "callee" => {
                fns.push(("fctx", Func { params: vec!["x0".into(), "x1".into()], cards: level1 }));
                vec![sg("g", int(100)), sv("c0", int(11)), sg("r", call("fctx", vec![int(31), int(32)])), log_var("c0")]
            }
            "closure" => vec![
                sg("g", int(100)),
                sv("outer", int(55)),
                sv("cl", C::Closure(vec![], level1)),
                sg("r", C::DynCall(b(rv("cl")), vec![])),
                log_var("outer"),
            ],
            "iftrue" => vec![sg("g", int(100)), C::IfTrue(b(int(1)), b(comp(no_decl_wrap(level1))))],
            _ => {
                // while: declarations are not allowed directly in the body, so the level lives in a callee
                fns.push(("lvl", Func { params: vec![], cards: level1 }));
                vec![
                    sg("g", int(100)),
                    sv("ow", int(0)),
                    C::While(b(bin(BinOp::Less, rv("ow"), int(2))), b(comp(vec![sv("ow", add(rv("ow"), int(1))), call("lvl", vec![])]))),
                ]
            }
        };
        let mut functions = vec![("main", func(&[], main_cards))];
        functions.extend(fns);
        module(functions)
    }
}

/// an `IfTrue` body may not declare locals: run the level in a helper callee instead
fn no_decl_wrap(level: Vec<C>) -> Vec<C> {
    vec![C::DynCall(b(C::Closure(vec![], level)), vec![])]
}
