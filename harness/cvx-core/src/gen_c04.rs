//! C04 families: the compile half (any names, arities, nesting, child kinds — not restricted to
//! well-scoped input) and the exhaustion half (well-scoped programs under swept host
//! configurations).

use crate::gen_basic::{CfgLite, Family};
use crate::ir::*;

fn add(a: C, c: C) -> C {
    bin(BinOp::Add, a, c)
}

pub const NAMES: [&str; 9] = ["", "a", "a.b", "super", "main", "é", "std", "1x", "f"];
pub const IMPORTS: [&str; 16] = [
    "",
    "a",
    "a.f",
    "a.zz",
    "a.n.zz",
    "n.zz",
    "super.zz",
    "super.n.zz",
    "super.super.zz",
    "super.super.super.zz",
    "super.super.super.a.n.zz",
    "a..zz",
    ".",
    "super.",
    "a.super.zz",
    "super.f",
];

// ------------------------------------------------------------------------------------------------
// names x imports
// ------------------------------------------------------------------------------------------------

pub struct FNames;

impl Family for FNames {
    fn name(&self) -> &'static str {
        "F-names"
    }
    fn len(&self) -> u64 {
        (NAMES.len() * NAMES.len() * NAMES.len() * IMPORTS.len() * 3) as u64
    }
    fn case(&self, idx: u64) -> Module {
        let n = NAMES.len() as u64;
        let mut i = idx;
        let fname = NAMES[(i % n) as usize];
        i /= n;
        let mname = NAMES[(i % n) as usize];
        i /= n;
        let vname = NAMES[(i % n) as usize];
        i /= n;
        let import = IMPORTS[(i % IMPORTS.len() as u64) as usize];
        i /= IMPORTS.len() as u64;
        let where_import = i; // 0 root, 1 submodule, 2 nested submodule
        let callee = func(&["p"], vec![C::Return(b(rv("p")))]);
        let mut inner = Module { submodules: vec![], functions: vec![(fname.to_string(), callee.clone()), ("g".into(), func(&[], vec![sg("in_g", call(fname, vec![int(1)]))]))], imports: vec![] };
        let mut nested = Module { submodules: vec![], functions: vec![("h".into(), func(&[], vec![sg("in_h", call("f", vec![int(2)]))]))], imports: vec![] };
        let mut root = Module {
            submodules: vec![],
            functions: vec![
                ("main".into(), func(&[], vec![sv(vname, int(1)), sg("r", rv(vname)), sg("c", call(&format!("{mname}.{fname}"), vec![int(3)]))])),
                ("f".into(), callee),
            ],
            imports: vec![],
        };
        // `zz` only exists in the nested module: a call to it has to go through the import
        nested.functions.push(("zz".into(), func(&[], vec![C::Return(b(int(9)))])));
        if !import.is_empty() {
            let use_it = sg("via_import", call("zz", vec![]));
            match where_import {
                0 => {
                    root.imports.push(import.to_string());
                    root.functions[0].1.cards.push(use_it);
                }
                1 => {
                    inner.imports.push(import.to_string());
                    inner.functions[1].1.cards.push(use_it);
                }
                _ => {
                    nested.imports.push(import.to_string());
                    nested.functions[0].1.cards.push(sg("via_import", call("f", vec![int(1)])));
                }
            }
        }
        inner.submodules.push(("n".into(), nested));
        root.submodules.push((mname.to_string(), inner));
        root
    }
}

// ------------------------------------------------------------------------------------------------
// structure: depth, nesting, arities, sizes
// ------------------------------------------------------------------------------------------------

pub struct FShape {
    pub max_mod_depth: u64,
    pub nest_depths: Vec<u64>,
    pub max_locals: u64,
    pub max_globals: u64,
}

impl FShape {
    pub fn quick() -> Self {
        FShape { max_mod_depth: 70, nest_depths: vec![1, 2, 5, 20, 60], max_locals: 260, max_globals: 64 }
    }
    pub fn thorough() -> Self {
        FShape { max_mod_depth: 70, nest_depths: vec![1, 2, 3, 5, 10, 20, 40, 60, 100, 120], max_locals: 300, max_globals: 600 }
    }
    const NEST_KINDS: u64 = 16;

    fn nest(kind: u64, depth: u64) -> Vec<C> {
        let mut c: C = match kind {
            12..=15 => sv("x", int(1)),
            _ => int(1),
        };
        for d in 0..depth {
            c = match kind {
                0 => add(c, int(1)),
                1 => add(int(1), c),
                2 => C::Not(b(c)),
                3 => C::Len(b(c)),
                4 => C::GetProperty(b(C::CreateTable), b(c)),
                5 => native("echo", vec![c]),
                6 => call("id", vec![c]),
                7 => C::DynCall(b(C::Function("id".into())), vec![c]),
                8 => C::Array(vec![c]),
                9 => C::Closure(vec![], vec![C::Return(b(c))]),
                10 => C::Composite("c".into(), vec![c]),
                11 => C::PopTable(b(C::Array(vec![c]))),
                12 => C::IfTrue(b(int(1)), b(c)),
                13 => C::Repeat { n: b(int(1)), i: Some(format!("i{d}")), body: b(c) },
                14 => C::While(b(int(0)), b(c)),
                _ => C::ForEach { i: None, k: None, v: Some(format!("v{d}")), iterable: b(C::CreateTable), body: b(c) },
            };
        }
        if c.produces_value() {
            vec![sg("g", c)]
        } else {
            vec![c, sg("g", int(1))]
        }
    }
}

impl Family for FShape {
    fn name(&self) -> &'static str {
        "F-shape"
    }
    fn len(&self) -> u64 {
        (self.max_mod_depth + 1) + Self::NEST_KINDS * self.nest_depths.len() as u64 + (self.max_locals + 1) + (self.max_globals + 1) + 4 * 4 * 3 + 10
    }
    fn case(&self, idx: u64) -> Module {
        let mut i = idx;
        let id = ("id", func(&["p"], vec![C::Return(b(rv("p")))]));
        if i <= self.max_mod_depth {
            // submodule chain of depth d, main calls the innermost function by its absolute path
            let d = i;
            let mut m = Module { submodules: vec![], functions: vec![("leaf".into(), func(&[], vec![sg("deep", int(1)), C::Return(b(int(7)))]))], imports: vec![] };
            let mut path = vec!["leaf".to_string()];
            for k in 0..d {
                let name = format!("m{}", d - 1 - k);
                m = Module { submodules: vec![(name.clone(), m)], functions: vec![], imports: vec![] };
                path.insert(0, name);
            }
            if d == 0 {
                m.functions.push(("main".into(), func(&[], vec![sg("r", call("leaf", vec![]))])));
            } else {
                m.functions.push(("main".into(), func(&[], vec![sg("r", call(&path.join("."), vec![]))])));
            }
            return m;
        }
        i -= self.max_mod_depth + 1;
        let nn = Self::NEST_KINDS * self.nest_depths.len() as u64;
        if i < nn {
            let kind = i % Self::NEST_KINDS;
            let depth = self.nest_depths[(i / Self::NEST_KINDS) as usize];
            return module(vec![("main", func(&[], Self::nest(kind, depth))), id]);
        }
        i -= nn;
        if i <= self.max_locals {
            let k = i;
            let mut cards: Vec<C> = (0..k).map(|j| sv(&format!("l{j}"), int(j as i64))).collect();
            cards.push(sg("done", int(1)));
            return module(vec![("main", func(&[], cards))]);
        }
        i -= self.max_locals + 1;
        if i <= self.max_globals {
            let k = i;
            let mut cards: Vec<C> = (0..k).map(|j| sg(&format!("g{j}"), int(j as i64))).collect();
            cards.push(sg("done", int(1)));
            return module(vec![("main", func(&[], cards))]);
        }
        i -= self.max_globals + 1;
        if i < 48 {
            // declared arity x supplied arguments x parameter naming (distinct / duplicate / empty)
            let arity = (i % 4) as usize;
            let supplied = ((i / 4) % 4) as usize;
            let naming = i / 16;
            let params: Vec<String> = (0..arity)
                .map(|j| match naming {
                    0 => format!("p{j}"),
                    1 => "p".to_string(),
                    _ => if j == 0 { String::new() } else { format!("p{j}") },
                })
                .collect();
            let f = Func { params: params.clone(), cards: vec![C::Return(b(if arity > 0 && naming != 2 { rv(&params[0]) } else { int(1) }))] };
            let main = func(&[], vec![sg("r", call("f", (0..supplied).map(|j| int(j as i64)).collect()))]);
            return Module { submodules: vec![], functions: vec![("main".into(), main), ("f".into(), f)], imports: vec![] };
        }
        i -= 48;
        // closure nesting 0..9, each level capturing a variable of every enclosing level
        let depth = i;
        let mut body: Vec<C> = vec![C::Return(b((0..=depth).fold(int(0), |acc, k| add(acc, rv(&format!("v{k}"))))))];
        for k in (1..=depth).rev() {
            body = vec![sv(&format!("v{k}"), int(k as i64)), sv("c", C::Closure(vec![], body)), C::Return(b(C::DynCall(b(rv("c")), vec![])))];
        }
        let mut main = vec![sv("v0", int(100))];
        main.push(sv("c", C::Closure(vec![], body)));
        main.push(sg("g", C::DynCall(b(rv("c")), vec![])));
        module(vec![("main", func(&[], main))])
    }
}

// ------------------------------------------------------------------------------------------------
// every card kind with every child slot filled by every kind class of child
// ------------------------------------------------------------------------------------------------

pub struct FKinds;

impl FKinds {
    fn classes() -> Vec<C> {
        vec![
            int(1),
            C::Nil,
            s("s"),
            C::CreateTable,
            sv("n", int(2)),
            sg("gg", int(3)),
            C::Abort,
            C::Return(b(int(4))),
            C::Comment("c".into()),
            C::Array(vec![int(1)]),
            C::Closure(vec!["q".into()], vec![C::Return(b(rv("q")))]),
            C::Composite("e".into(), vec![]),
            C::IfTrue(b(int(1)), b(sv("n", int(5)))),
            C::Repeat { n: b(int(1)), i: None, body: b(C::Nil) },
            call("id", vec![int(1)]),
            native("nosuch", vec![]),
            C::Function("nosuchfn".into()),
            rv("undefined_global"),
        ]
    }
    /// parents with `slots` child slots each; the filler goes into slot `k`, the rest get ints
    fn parents(filler: &C, k: usize) -> Vec<C> {
        let p = |j: usize| if j == k { filler.clone() } else { int(1) };
        let mut v = vec![
            bin(BinOp::Add, p(0), p(1)),
            bin(BinOp::Less, p(0), p(1)),
            bin(BinOp::Equals, p(0), p(1)),
            bin(BinOp::And, p(0), p(1)),
            C::Not(b(p(0))),
            C::Len(b(p(0))),
            C::Return(b(p(0))),
            C::SetProperty(b(p(0)), b(p(1)), b(p(2))),
            C::GetProperty(b(p(0)), b(p(1))),
            C::Get(b(p(0)), b(p(1))),
            C::Append(b(p(0)), b(p(1))),
            C::PopTable(b(p(0))),
            native("echo2", vec![p(0), p(1)]),
            call("two", vec![p(0), p(1)]),
            C::DynCall(b(p(0)), vec![p(1), p(2)]),
            C::IfTrue(b(p(0)), b(p(1))),
            C::IfFalse(b(p(0)), b(p(1))),
            C::IfElse(b(p(0)), b(p(1)), b(p(2))),
            C::While(b(p(0)), b(C::Composite("w".into(), vec![p(1), C::Abort]))),
            C::Repeat { n: b(p(0)), i: Some("i".into()), body: b(p(1)) },
            C::ForEach { i: Some("i".into()), k: Some("k".into()), v: Some("v".into()), iterable: b(p(0)), body: b(p(1)) },
            sv("x", p(0)),
            sv("x.y", p(0)),
            sg("y", p(0)),
            C::Array(vec![p(0), p(1), p(2)]),
            C::Composite("cc".into(), vec![p(0), p(1), p(2)]),
            C::Closure(vec![], vec![p(0), p(1)]),
        ];
        v.truncate(27);
        v
    }
}

impl Family for FKinds {
    fn name(&self) -> &'static str {
        "F-kinds"
    }
    fn len(&self) -> u64 {
        (Self::classes().len() * 27 * 3 * 2) as u64
    }
    fn case(&self, idx: u64) -> Module {
        let classes = Self::classes();
        let mut i = idx;
        let filler = classes[(i % classes.len() as u64) as usize].clone();
        i /= classes.len() as u64;
        let parent_i = (i % 27) as usize;
        i /= 27;
        let slot = (i % 3) as usize;
        i /= 3;
        let parent = Self::parents(&filler, slot)[parent_i].clone();
        let in_callee = i == 1;
        let id = ("id", func(&["p"], vec![C::Return(b(rv("p")))]));
        let two = ("two", func(&["p", "q"], vec![C::Return(b(rv("q")))]));
        let body = vec![sv("x", C::CreateTable), parent, sg("after", int(1))];
        if in_callee {
            module(vec![("main", func(&[], vec![sg("r", call("w", vec![]))])), ("w", func(&[], body)), id, two])
        } else {
            module(vec![("main", func(&[], body)), id, two])
        }
    }
}

// ------------------------------------------------------------------------------------------------
// exhaustion x host configurations (well-scoped programs)
// ------------------------------------------------------------------------------------------------

pub struct FExhaust {
    pub thorough: bool,
}

impl FExhaust {
    fn sizes(&self) -> Vec<i64> {
        if self.thorough {
            vec![0, 1, 2, 3, 4, 5, 7, 8, 9, 16, 100, 200, 250, 252, 253, 254, 255, 256, 257, 258, 300]
        } else {
            vec![0, 1, 2, 3, 4, 5, 6, 8, 20, 30, 40, 50, 100, 244, 245, 246, 247, 248, 249, 250, 251, 252, 253, 254, 255, 256, 257, 300]
        }
    }
    fn configs(&self) -> Vec<CfgLite> {
        let mut v = vec![CfgLite::default()];
        for stack in [1usize, 2, 3, 4, 8] {
            v.push(CfgLite { stack, ..Default::default() });
        }
        for call_stack in [0usize, 1, 2, 3] {
            v.push(CfgLite { call_stack, ..Default::default() });
        }
        for mem_limit in [0usize, 16, 64, 100, 200, 300, 500, 1000, 2000, 4096] {
            v.push(CfgLite { mem_limit, ..Default::default() });
        }
        for max_instr in [0u64, 1, 2, 3, 4, 5, 10, 50] {
            v.push(CfgLite { max_instr, ..Default::default() });
        }
        if self.thorough {
            for mem_limit in (0..40).map(|k| 24 * k + 8) {
                v.push(CfgLite { mem_limit, ..Default::default() });
            }
            for max_instr in 6..60u64 {
                v.push(CfgLite { max_instr, ..Default::default() });
            }
            v.push(CfgLite { stack: 2, call_stack: 1, mem_limit: 64, max_instr: 20 });
            v.push(CfgLite { stack: 3, call_stack: 2, mem_limit: 200, max_instr: 50 });
        }
        v
    }
    const PROGRAMS: u64 = 16;

    fn program(kind: u64, n: i64) -> Module {
        let rec = func(&["n"], vec![C::IfTrue(b(rv("n")), b(C::Return(b(add(call("f", vec![bin(BinOp::Sub, rv("n"), int(1))]), int(1)))))), C::Return(b(int(0)))]);
        match kind {
            // recursion to depth n
            0 => module(vec![("main", func(&[], vec![sg("g", call("f", vec![int(n)]))])), ("f", rec)]),
            // expression needing n temporaries: 1 + (1 + (1 + ...))
            1 => {
                let mut e = int(1);
                for _ in 0..n {
                    e = add(int(1), e);
                }
                module(vec![("main", func(&[], vec![sg("g", e)]))])
            }
            // n function values / native values / closures / strings / tables left on the stack
            2..=6 => {
                let v = match kind {
                    2 => C::Function("f".into()),
                    3 => C::NativeFunction("echo".into()),
                    4 => C::Closure(vec![], vec![C::Return(b(int(1)))]),
                    5 => s("some string"),
                    _ => C::CreateTable,
                };
                let mut cards: Vec<C> = (0..n).map(|_| v.clone()).collect();
                cards.push(sg("done", int(1)));
                module(vec![("main", func(&[], cards)), ("f", rec)])
            }
            // n locals
            7 => {
                let mut cards: Vec<C> = (0..n).map(|j| sv(&format!("l{j}"), int(j))).collect();
                cards.push(sg("done", int(1)));
                module(vec![("main", func(&[], cards))])
            }
            // allocation churn: n iterations of each allocating card
            8 => module(vec![("main", func(&[], vec![C::Repeat { n: b(int(n * 40)), i: None, body: b(sg("s", s("a string that is a little longer than a few bytes"))) }, sg("done", int(1))]))]),
            9 => module(vec![(
                "main",
                func(&[], vec![sv("t", C::CreateTable), C::Repeat { n: b(int(n * 10)), i: Some("i".into()), body: b(C::Append(b(rv("i")), b(rv("t")))) }, sg("len", C::Len(b(rv("t"))))]),
            )]),
            10 => module(vec![(
                "main",
                func(&[], vec![C::Repeat { n: b(int(n * 10)), i: Some("i".into()), body: b(comp(vec![sv("c", C::Closure(vec![], vec![C::Return(b(rv("i")))])), sg("g", C::DynCall(b(rv("c")), vec![]))])) }]),
            )]),
            // nested calls through host re-entry to depth n (capped)
            11 => {
                let d = n.min(40);
                let f = func(&["n"], vec![C::IfTrue(b(rv("n")), b(C::Return(b(native("reenter1", vec![C::Function("f".into()), bin(BinOp::Sub, rv("n"), int(1))]))))), C::Return(b(int(0)))]);
                module(vec![("main", func(&[], vec![sg("g", call("f", vec![int(d)]))])), ("f", f)])
            }
            // sort / min / max with n entries
            12 => module(vec![(
                "main",
                func(&[], vec![sv("t", C::CreateTable), C::Repeat { n: b(int(n.min(60))), i: Some("i".into()), body: b(C::Append(b(bin(BinOp::Sub, int(100), rv("i"))), b(rv("t")))) }, sg("s", call("std.sorted", vec![rv("t")])), sg("m", call("std.min", vec![rv("t")]))]),
            )]),
            // n locals, then a for-each (its hidden loop locals are created near the end of the stack)
            14 => {
                let mut cards: Vec<C> = (0..n).map(|j| sv(&format!("l{j}"), int(j))).collect();
                cards.push(sv("t", C::CreateTable));
                cards.push(C::Append(b(int(1)), b(rv("t"))));
                cards.push(C::ForEach { i: Some("i".into()), k: Some("k".into()), v: Some("v".into()), iterable: b(rv("t")), body: b(sg("seen", rv("v"))) });
                cards.push(sg("done", int(1)));
                module(vec![("main", func(&[], cards))])
            }
            // recursion whose every level runs a for-each and a repeat with locals
            15 => {
                let f = func(
                    &["n", "t"],
                    vec![
                        sv("pad", int(0)),
                        C::ForEach { i: None, k: None, v: Some("v".into()), iterable: b(rv("t")), body: b(sv("pad", add(rv("pad"), rv("v")))) },
                        C::Repeat { n: b(int(1)), i: Some("i".into()), body: b(sv("pad", add(rv("pad"), rv("i")))) },
                        C::IfTrue(b(rv("n")), b(C::Return(b(add(call("f", vec![bin(BinOp::Sub, rv("n"), int(1)), rv("t")]), rv("pad")))))),
                        C::Return(b(rv("pad"))),
                    ],
                );
                module(vec![("main", func(&[], vec![sv("t", C::CreateTable), C::Append(b(int(1)), b(rv("t"))), sg("g", call("f", vec![int(n), rv("t")]))])), ("f", f)])
            }
            // strings of length n*4 as table keys
            _ => {
                let key: String = "k".repeat((n * 4) as usize);
                module(vec![("main", func(&[], vec![sv("t", C::CreateTable), C::SetProperty(b(int(1)), b(rv("t")), b(C::Str(key.clone()))), sg("g", C::GetProperty(b(rv("t")), b(C::Str(key))))]))])
            }
        }
    }
}

impl Family for FExhaust {
    fn name(&self) -> &'static str {
        "F-exhaust"
    }
    fn len(&self) -> u64 {
        Self::PROGRAMS * self.sizes().len() as u64 * self.configs().len() as u64
    }
    fn case(&self, idx: u64) -> Module {
        let ns = self.sizes().len() as u64;
        let i = idx % (Self::PROGRAMS * ns);
        Self::program(i % Self::PROGRAMS, self.sizes()[(i / Self::PROGRAMS) as usize])
    }
    fn cfg(&self, idx: u64) -> Option<CfgLite> {
        let ns = self.sizes().len() as u64;
        Some(self.configs()[(idx / (Self::PROGRAMS * ns)) as usize].clone())
    }
}

// ------------------------------------------------------------------------------------------------
// self-containing tables
// ------------------------------------------------------------------------------------------------

pub struct FCyclic;

impl Family for FCyclic {
    fn name(&self) -> &'static str {
        "F-cyclic"
    }
    fn len(&self) -> u64 {
        12
    }
    fn case(&self, idx: u64) -> Module {
        let mut cards = vec![sv("t", C::CreateTable)];
        if idx < 6 {
            cards.push(C::Append(b(rv("t")), b(rv("t")))); // t[0] = t
        } else {
            cards.push(sv("u", C::CreateTable));
            cards.push(C::Append(b(rv("u")), b(rv("t"))));
            cards.push(C::Append(b(rv("t")), b(rv("u")))); // t -> u -> t
        }
        cards.push(match idx % 6 {
            0 => sg("g", bin(BinOp::Equals, rv("t"), rv("t"))),
            1 => sg("g", bin(BinOp::Less, rv("t"), rv("t"))),
            2 => C::SetProperty(b(int(1)), b(C::CreateTable), b(rv("t"))), // as a key: hashed
            3 => sg("g", C::Len(b(rv("t")))),
            4 => sg("g", call("std.sorted", vec![rv("t")])),
            _ => sg("g", bin(BinOp::Add, rv("t"), int(1))),
        });
        cards.push(sg("done", int(1)));
        module(vec![("main", func(&[], cards))])
    }
}

// ------------------------------------------------------------------------------------------------
// keys a lookup cannot find again
// ------------------------------------------------------------------------------------------------

/// Tables holding an entry whose key cannot be found again (NaN, which is not equal to itself; a
/// table whose content - and with it its hash - changed after it was used as a key), or an unusual
/// key (infinities, negative zero, function values, an empty table, equal-content tables), read
/// through every reader. The statement of C07 excludes such keys; totality (C04) does not.
pub struct FOddKeys;

impl FOddKeys {
    const KEYS: u64 = 11;
    const READERS: u64 = 20;
    const SIZES: u64 = 2;
}

impl Family for FOddKeys {
    fn name(&self) -> &'static str {
        "F-oddkeys"
    }
    fn len(&self) -> u64 {
        Self::KEYS * Self::READERS * Self::SIZES
    }
    fn case(&self, idx: u64) -> Module {
        let key = idx % Self::KEYS;
        let reader = (idx / Self::KEYS) % Self::READERS;
        let big = idx / (Self::KEYS * Self::READERS) == 1;
        let mut cards = vec![sv("t", C::CreateTable), sv("kt", C::CreateTable), sv("kt2", C::CreateTable)];
        if big {
            cards.push(C::SetProperty(b(int(10)), b(rv("t")), b(int(0))));
            cards.push(C::SetProperty(b(int(11)), b(rv("t")), b(s("first"))));
        }
        // the odd entry
        let mut after: Vec<C> = Vec::new();
        let k: C = match key {
            0 => C::Float(f64::NAN),
            1 => bin(BinOp::Div, int(0), int(0)),
            2 => C::Float(f64::INFINITY),
            3 => C::Float(-0.0),
            4 => {
                // a table key that is mutated after the insertion
                after.push(C::SetProperty(b(int(2)), b(rv("kt")), b(s("x"))));
                rv("kt")
            }
            5 => {
                // two equal-content table keys, one mutated later
                cards.push(C::SetProperty(b(int(21)), b(rv("t")), b(rv("kt2"))));
                after.push(C::Append(b(int(1)), b(rv("kt2"))));
                rv("kt")
            }
            6 => C::Function("main2".into()),
            7 => C::NativeFunction("echo".into()),
            8 => {
                cards.push(sv("cl", C::Closure(vec![], vec![C::Return(b(int(1)))])));
                rv("cl")
            }
            9 => C::Float(f64::NEG_INFINITY),
            _ => {
                // two table keys stored while they differ (under one hash: the first was empty when
                // it was stored, then filled; the second is empty) that become equal afterwards;
                // then the table grows, i.e. every stored entry is moved to a new bucket array
                cards.push(C::SetProperty(b(int(21)), b(rv("t")), b(rv("kt"))));
                cards.push(C::Append(b(int(1)), b(rv("kt"))));
                after.push(sg("_sink", C::PopTable(b(rv("kt")))));
                after.push(C::Repeat { n: b(int(20)), i: Some("gi".into()), body: b(C::SetProperty(b(rv("gi")), b(rv("t")), b(bin(BinOp::Add, rv("gi"), int(100))))) });
                rv("kt2")
            }
        };
        cards.push(sv("oddkey", k));
        cards.push(C::SetProperty(b(int(20)), b(rv("t")), b(rv("oddkey"))));
        if big {
            cards.push(C::SetProperty(b(int(12)), b(rv("t")), b(s("last"))));
        }
        cards.extend(after);
        let logv = |name: &str, v: C| sg("_sink", native("log2", vec![s(name), v]));
        cards.push(match reader {
            0 => C::ForEach { i: Some("i".into()), k: Some("k".into()), v: Some("v".into()), iterable: b(rv("t")), body: b(comp(vec![logv("i", rv("i")), logv("v", C::Len(b(rv("v"))))])) },
            1 => C::Repeat { n: b(C::Len(b(rv("t")))), i: Some("ri".into()), body: b(comp(vec![sv("row", C::Get(b(rv("t")), b(rv("ri")))), logv("row", C::Len(b(rv("row.value"))))])) },
            2 => logv("get", C::GetProperty(b(rv("t")), b(rv("oddkey")))),
            3 => logv("len", C::Len(b(rv("t")))),
            4 => logv("pop", C::Len(b(C::PopTable(b(rv("t")))))),
            5 => comp(vec![C::Append(b(int(5)), b(rv("t"))), logv("len", C::Len(b(rv("t"))))]),
            6 => comp(vec![C::SetProperty(b(int(30)), b(rv("t")), b(rv("oddkey"))), logv("len", C::Len(b(rv("t"))))]),
            7 => logv("to_array", C::Len(b(call("std.to_array", vec![rv("t")])))),
            8 => logv("min", C::Len(b(call("std.min", vec![rv("t")])))),
            9 => logv("sorted", C::Len(b(call("std.sorted", vec![rv("t")])))),
            10 => logv("filter", C::Len(b(call("std.filter", vec![C::Function("cb".into()), rv("t")])))),
            11 => logv("map", C::Len(b(call("std.map", vec![C::Function("cb".into()), rv("t")])))),
            12 => logv("eq", bin(BinOp::Equals, rv("t"), rv("t"))),
            14 => logv("max", C::Len(b(call("std.max", vec![rv("t")])))),
            15 => logv("max_by_key", C::Len(b(call("std.max_by_key", vec![C::Function("kf".into()), rv("t")])))),
            16 => logv("min_by_key", C::Len(b(call("std.min_by_key", vec![C::Function("kf".into()), rv("t")])))),
            17 => logv("sorted_by_key", C::Len(b(call("std.sorted_by_key", vec![C::Function("kf".into()), rv("t")])))),
            18 => logv("any", call("std.any", vec![C::Function("cb".into()), rv("t")])),
            19 => logv("less", bin(BinOp::Less, rv("t"), rv("t"))),
            _ => comp(vec![sv("copy", C::CreateTable), C::ForEach { i: None, k: Some("k".into()), v: Some("v".into()), iterable: b(rv("t")), body: b(C::SetProperty(b(rv("v")), b(rv("copy")), b(rv("k")))) }, logv("copied", C::Len(b(rv("copy"))))]),
        });
        cards.push(sg("done", int(1)));
        module(vec![("main", func(&[], cards)), ("main2", func(&[], vec![])), ("cb", func(&["k", "v", "i"], vec![C::Return(b(int(1)))])), ("kf", func(&["key", "value"], vec![C::Return(b(C::Len(b(rv("value")))))]))])
    }
}

// ------------------------------------------------------------------------------------------------
// self-referencing closures; closures with many captured variables
// ------------------------------------------------------------------------------------------------

/// A closure reachable from its own captured variable (directly, through a table, or through a
/// second closure), escaped from its scope or not, used in every operand position - including the
/// ones that raise a type error and may want to print the value.
pub struct FSelfRef;

impl FSelfRef {
    const SHAPES: u64 = 4;
    const USES: u64 = 17;
}

impl Family for FSelfRef {
    fn name(&self) -> &'static str {
        "F-selfref"
    }
    fn len(&self) -> u64 {
        Self::SHAPES * Self::USES
    }
    fn case(&self, idx: u64) -> Module {
        let shape = idx % Self::SHAPES;
        let usage = idx / Self::SHAPES;
        let mut fns: Vec<(&str, Func)> = Vec::new();
        let mut main: Vec<C> = Vec::new();
        match shape {
            0 => {
                fns.push(("mk", func(&[], vec![sv("f", C::Nil), sv("f", C::Closure(vec![], vec![C::Return(b(rv("f")))])), C::Return(b(rv("f")))])));
                main.push(sv("v", call("mk", vec![])));
            }
            1 => {
                fns.push(("mk", func(&[], vec![sv("t", C::CreateTable), sv("t.f", C::Closure(vec![], vec![C::Return(b(rv("t")))])), C::Return(b(rv("t.f")))])));
                main.push(sv("v", call("mk", vec![])));
            }
            2 => {
                // not escaped: the upvalue is still open
                main.push(sv("v", C::Nil));
                main.push(sv("v", C::Closure(vec![], vec![C::Return(b(rv("v")))])));
            }
            _ => {
                fns.push((
                    "mk",
                    func(&[], vec![sv("g", C::Nil), sv("f", C::Closure(vec![], vec![C::Return(b(rv("g")))])), sv("g", C::Closure(vec![], vec![C::Return(b(rv("f")))])), C::Return(b(rv("f")))]),
                ));
                main.push(sv("v", call("mk", vec![])));
            }
        }
        let v = || rv("v");
        let logv = |name: &str, x: C| sg("_sink", native("log2", vec![s(name), x]));
        main.push(match usage {
            0 => logv("get-property", C::GetProperty(b(v()), b(int(1)))),
            1 => C::SetProperty(b(int(1)), b(v()), b(int(1))),
            2 => logv("get-row", C::Get(b(v()), b(int(0)))),
            3 => C::Append(b(int(1)), b(v())),
            4 => logv("pop", C::PopTable(b(v()))),
            5 => C::ForEach { i: None, k: Some("k".into()), v: Some("x".into()), iterable: b(v()), body: b(logv("row", rv("k"))) },
            6 => logv("len", C::Len(b(v()))),
            7 => logv("add", bin(BinOp::Add, v(), int(1))),
            8 => logv("eq", bin(BinOp::Equals, v(), v())),
            9 => logv("less", bin(BinOp::Less, v(), v())),
            10 => comp(vec![sv("tt", C::CreateTable), C::SetProperty(b(int(1)), b(rv("tt")), b(v())), logv("as-key", C::Len(b(rv("tt"))))]),
            11 => logv("call", C::Len(b(C::DynCall(b(v()), vec![])))),
            12 => logv("not", C::Not(b(v()))),
            13 => logv("to-array", C::Len(b(call("std.to_array", vec![v()])))),
            14 => logv("min", C::Len(b(call("std.min", vec![v()])))),
            15 => sv("v.field", int(1)),
            _ => logv("dotted-read", rv("v.field")),
        });
        main.push(sg("done", int(1)));
        let mut functions = vec![("main", func(&[], main))];
        functions.extend(fns);
        module(functions)
    }
}

/// Closures capturing k variables: directly from the enclosing function, and transitively through a
/// middle closure that itself captures some - around the limits of the upvalue tables.
pub struct FManyUpvalues;

impl FManyUpvalues {
    const DIRECT: [u64; 12] = [0, 1, 2, 50, 100, 200, 253, 254, 255, 256, 257, 300];
    const NESTED: [(u64, u64); 10] = [(1, 1), (100, 100), (127, 127), (128, 127), (128, 128), (130, 130), (254, 1), (255, 1), (200, 100), (1, 255)];
}

impl Family for FManyUpvalues {
    fn name(&self) -> &'static str {
        "F-many-upvalues"
    }
    fn len(&self) -> u64 {
        (Self::DIRECT.len() + Self::NESTED.len()) as u64
    }
    fn case(&self, idx: u64) -> Module {
        let sum = |names: &[String]| names.iter().fold(int(0), |acc, n| bin(BinOp::Add, acc, rv(n)));
        if (idx as usize) < Self::DIRECT.len() {
            let k = Self::DIRECT[idx as usize];
            let names: Vec<String> = (0..k).map(|j| format!("o{j}")).collect();
            let mut body: Vec<C> = names.iter().enumerate().map(|(j, n)| sv(n, int(j as i64))).collect();
            body.push(sv("c", C::Closure(vec![], vec![C::Return(b(sum(&names)))])));
            body.push(C::Return(b(rv("c"))));
            return module(vec![("main", func(&[], vec![sv("c", call("mk", vec![])), sg("r", C::DynCall(b(rv("c")), vec![]))])), ("mk", func(&[], body))]);
        }
        let (ko, km) = Self::NESTED[idx as usize - Self::DIRECT.len()];
        let outer: Vec<String> = (0..ko).map(|j| format!("o{j}")).collect();
        let mid: Vec<String> = (0..km).map(|j| format!("m{j}")).collect();
        let mut all = outer.clone();
        all.extend(mid.iter().cloned());
        let mut mid_body: Vec<C> = mid.iter().enumerate().map(|(j, n)| sv(n, int(1000 + j as i64))).collect();
        mid_body.push(sv("inner", C::Closure(vec![], vec![C::Return(b(sum(&all)))])));
        mid_body.push(C::Return(b(rv("inner"))));
        let mut body: Vec<C> = outer.iter().enumerate().map(|(j, n)| sv(n, int(j as i64))).collect();
        body.push(sv("midc", C::Closure(vec![], mid_body)));
        body.push(C::Return(b(C::DynCall(b(rv("midc")), vec![]))));
        module(vec![("main", func(&[], vec![sv("c", call("mk", vec![])), sg("r", C::DynCall(b(rv("c")), vec![]))])), ("mk", func(&[], body))])
    }
}

/// std.sorted / min / max over larger tables whose values are not totally ordered by the language's
/// comparison (nil ties with everything, a string ties with the number equal to its length, yet
/// the numbers differ): the library must return, whatever order it picks.
pub struct FSortMixed;

impl FSortMixed {
    const SIZES: [usize; 6] = [8, 21, 33, 64, 100, 200];
}

impl Family for FSortMixed {
    fn name(&self) -> &'static str {
        "F-sort-mixed"
    }
    fn len(&self) -> u64 {
        Self::SIZES.len() as u64 * 6 * 3
    }
    fn case(&self, idx: u64) -> Module {
        let size = Self::SIZES[(idx % 6) as usize];
        let rot = ((idx / 6) % 6) as usize;
        let f = ["std.sorted", "std.min", "std.max"][(idx / 36) as usize];
        let pool: Vec<C> = vec![C::Nil, s("ab"), int(0), int(2), C::Float(1.5), s(""), C::Float(f64::NAN), int(-1), s("abc")];
        let mut cards = vec![sv("t", C::CreateTable)];
        for i in 0..size {
            // a deterministic scramble of the pool
            let v = pool[(i * 7 + rot * 3 + i / 5) % pool.len()].clone();
            cards.push(C::Append(b(v), b(rv("t"))));
        }
        cards.push(sg("r", C::Len(b(call(f, vec![rv("t")])))));
        cards.push(sg("done", int(1)));
        module(vec![("main", func(&[], cards))])
    }
}


/// Globals whose first mention (in compilation order) is a dotted name: a property read `cfg.speed`,
/// the prefix read of a dotted assignment `cfg.a.b = ..`, in main or in a function compiled before
/// the one that assigns the global plainly. The name table must list `cfg`, not the dotted path.
pub struct FDottedGlobals;

impl Family for FDottedGlobals {
    fn name(&self) -> &'static str {
        "F-dotted-globals"
    }
    fn len(&self) -> u64 {
        8
    }
    fn case(&self, idx: u64) -> Module {
        let first = idx % 4;
        let setter_first = idx / 4 == 1;
        let mention: C = match first {
            0 => sg("out", rv("cfg.speed")),
            1 => sv("cfg.a.b", int(1)),
            2 => sg("out", bin(BinOp::Add, rv("cfg.speed"), rv("other.x.y"))),
            _ => C::IfTrue(b(int(0)), b(sg("out", rv("cfg.speed")))),
        };
        let setter = func(&[], vec![sg("cfg", C::CreateTable), sg("other", C::CreateTable)]);
        let user = func(&[], vec![mention]);
        let functions = if setter_first {
            vec![("main", func(&[], vec![call("setter", vec![]), call("user", vec![])])), ("setter", setter), ("user", user)]
        } else {
            vec![("main", func(&[], vec![call("setter", vec![]), call("user", vec![])])), ("user", user), ("setter", setter)]
        };
        module(functions)
    }
}
