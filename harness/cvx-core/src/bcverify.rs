//! E-bc: an independent structural verifier for compiled programs (C10). It has its own opcode and
//! operand-width table (cross-checked against the crate's table by the caller) and reads the
//! whole artefact, not only the executed path. It works on plain data so that it never touches
//! cao-lang types.

use std::collections::{BTreeMap, BTreeSet};

/// (name, operand bytes) in opcode order
pub const OPCODES: [(&str, usize); 47] = [
    ("Add", 0),
    ("Sub", 0),
    ("Mul", 0),
    ("Div", 0),
    ("CallNative", 4),
    ("ScalarInt", 8),
    ("ScalarFloat", 8),
    ("ScalarNil", 0),
    ("StringLiteral", 4),
    ("CopyLast", 0),
    ("Exit", 0),
    ("CallFunction", 0),
    ("Equals", 0),
    ("NotEquals", 0),
    ("Less", 0),
    ("LessOrEq", 0),
    ("Pop", 0),
    ("SetGlobalVar", 4),
    ("ReadGlobalVar", 4),
    ("SetLocalVar", 4),
    ("ReadLocalVar", 4),
    ("ClearStack", 0),
    ("Return", 0),
    ("SwapLast", 0),
    ("And", 0),
    ("Or", 0),
    ("Xor", 0),
    ("Not", 0),
    ("Goto", 4),
    ("GotoIfTrue", 4),
    ("GotoIfFalse", 4),
    ("InitTable", 0),
    ("GetProperty", 0),
    ("SetProperty", 0),
    ("Len", 0),
    ("BeginForEach", 20),
    ("ForEach", 20),
    ("FunctionPointer", 8),
    ("NativeFunctionPointer", 4),
    ("NthRow", 0),
    ("AppendTable", 0),
    ("PopTable", 0),
    ("Closure", 8),
    ("SetUpvalue", 4),
    ("ReadUpvalue", 4),
    ("RegisterUpvalue", 2),
    ("CloseUpvalue", 0),
];

pub const MAX_LOCALS: u32 = 255;

#[derive(Default, Clone, Debug)]
pub struct BcInput {
    pub bytecode: Vec<u8>,
    pub data: Vec<u8>,
    /// (handle, position)
    pub labels: Vec<(u32, u32)>,
    /// variable name handle -> id
    pub var_ids: Vec<(u32, u32)>,
    /// id handle -> name
    pub var_names: Vec<(u32, String)>,
    pub trace_keys: Vec<u32>,
    /// script functions the source defines (incl. the injected library): (handle, arity)
    pub functions: Vec<(u32, u32)>,
    /// handle of the entry function (it is compiled first and has no label)
    pub entry: u32,
    /// handle the name of a global hashes to / handle an id hashes to (supplied by the caller
    /// through the crate's public `Handle` functions)
    pub name_handles: BTreeMap<String, u32>,
    pub id_handles: BTreeMap<u32, u32>,
    /// global names the source mentions in `SetGlobalVar` cards
    pub source_globals: Vec<String>,
    pub disassembly: String,
}

#[derive(Clone, Debug)]
pub struct Instr {
    pub addr: usize,
    pub op: u8,
    pub operand: Vec<u8>,
}

impl Instr {
    pub fn name(&self) -> &'static str {
        OPCODES[self.op as usize].0
    }
    fn u32_at(&self, i: usize) -> u32 {
        u32::from_le_bytes(self.operand[i..i + 4].try_into().unwrap())
    }
    fn i32_at(&self, i: usize) -> i32 {
        i32::from_le_bytes(self.operand[i..i + 4].try_into().unwrap())
    }
}

pub type Finding = (String, String);

fn f(key: &str, what: String) -> Finding {
    (key.to_string(), what)
}

/// cross-check of the verifier's own table against the crate's `(opcode, name, span)` table
pub fn check_table(crate_table: &[(u8, String, usize)]) -> Vec<Finding> {
    let mut out = Vec::new();
    if crate_table.len() != OPCODES.len() {
        out.push(f("table/count", format!("the crate knows {} opcodes, the verifier {}", crate_table.len(), OPCODES.len())));
    }
    for (op, name, span) in crate_table {
        match OPCODES.get(*op as usize) {
            None => out.push(f("table/unknown-opcode", format!("opcode {op} ({name}) is not in the verifier's table"))),
            Some((n, w)) => {
                if n != name {
                    out.push(f("table/name", format!("opcode {op}: crate {name}, verifier {n}")));
                }
                if w + 1 != *span {
                    out.push(f("table/span", format!("{name}: crate span {span}, verifier {}", w + 1)));
                }
            }
        }
    }
    out
}

pub fn decode(bytecode: &[u8]) -> Result<Vec<Instr>, Finding> {
    let mut out = Vec::new();
    let mut i = 0usize;
    while i < bytecode.len() {
        let op = bytecode[i];
        let Some((name, w)) = OPCODES.get(op as usize) else {
            return Err(f("decode/unknown-opcode", format!("byte {op} at {i} is not an instruction")));
        };
        if i + 1 + w > bytecode.len() {
            return Err(f("decode/truncated-operand", format!("{name} at {i} needs {w} operand bytes, {} left", bytecode.len() - i - 1)));
        }
        out.push(Instr { addr: i, op, operand: bytecode[i + 1..i + 1 + w].to_vec() });
        i += 1 + w;
    }
    Ok(out)
}

fn string_at(data: &[u8], off: usize) -> Result<&str, String> {
    if off + 4 > data.len() {
        return Err(format!("offset {off} leaves no room for a length prefix (data is {} bytes)", data.len()));
    }
    let len = u32::from_le_bytes(data[off..off + 4].try_into().unwrap()) as usize;
    if off + 4 + len > data.len() {
        return Err(format!("string at {off} claims {len} bytes, only {} available", data.len() - off - 4));
    }
    std::str::from_utf8(&data[off + 4..off + 4 + len]).map_err(|e| format!("string at {off} is not UTF-8: {e}"))
}

pub fn verify(inp: &BcInput) -> Vec<Finding> {
    let mut out: Vec<Finding> = Vec::new();
    let instrs = match decode(&inp.bytecode) {
        Ok(i) => i,
        Err(e) => return vec![e],
    };
    let len = inp.bytecode.len();
    let starts: BTreeSet<usize> = instrs.iter().map(|i| i.addr).collect();
    match instrs.last() {
        Some(i) if i.name() == "Exit" => {}
        Some(i) => out.push(f("last-not-exit", format!("the program ends with {} instead of Exit", i.name()))),
        None => out.push(f("empty", "empty bytecode".into())),
    }
    let labels: BTreeMap<u32, u32> = inp.labels.iter().copied().collect();
    if labels.len() != inp.labels.len() {
        out.push(f("labels/duplicate-handle", "the label table yields a handle twice".into()));
    }
    for (h, pos) in inp.labels.iter() {
        if !starts.contains(&(*pos as usize)) {
            out.push(f("label/not-instruction-start", format!("label {h} -> {pos} is not the first byte of an instruction (program length {len})")));
        }
    }
    let functions: BTreeMap<u32, u32> = inp.functions.iter().copied().collect();
    for (h, _) in inp.functions.iter() {
        // every function except the entry point has a label
        if *h != inp.entry && !labels.contains_key(h) {
            out.push(f("label/function-missing", format!("function handle {h} has no label")));
        }
    }

    // closures: handle -> (address of the Closure instruction, number of registered upvalues)
    let mut closures: Vec<(u32, usize, usize, u32)> = Vec::new(); // (handle, body start, closure instr addr, upvalue count)
    for (k, ins) in instrs.iter().enumerate() {
        match ins.name() {
            "Goto" | "GotoIfTrue" | "GotoIfFalse" => {
                let t = ins.i32_at(0);
                if t < 0 || !starts.contains(&(t as usize)) {
                    out.push(f("jump/bad-target", format!("{} at {} jumps to {t}, which is not an instruction start (length {len})", ins.name(), ins.addr)));
                }
            }
            "StringLiteral" | "NativeFunctionPointer" => {
                if let Err(e) = string_at(&inp.data, ins.u32_at(0) as usize) {
                    out.push(f("string/bad-operand", format!("{} at {}: {e}", ins.name(), ins.addr)));
                }
            }
            "FunctionPointer" => {
                let h = ins.u32_at(0);
                let arity = ins.u32_at(4);
                match functions.get(&h) {
                    None => out.push(f("function-pointer/unknown-handle", format!("FunctionPointer at {} refers to handle {h}, which is no function of the source", ins.addr))),
                    Some(a) if *a != arity => out.push(f("function-pointer/arity", format!("FunctionPointer at {}: arity {arity}, the function declares {a}", ins.addr))),
                    _ => {}
                }
                if functions.contains_key(&h) && !labels.contains_key(&h) {
                    // the entry function is the one function that is compiled without a label:
                    // one defect, reached by every program that names `main` - keyed by the site
                    let class = if h == inp.entry { "function-pointer/entry-function-has-no-label!" } else { "function-pointer/no-label" };
                    out.push(f(class, format!("FunctionPointer at {} refers to a function of the source (handle {h}) that has no label: calling the value fails with ProcedureNotFound", ins.addr)));
                }
            }
            "Closure" => {
                let h = ins.u32_at(0);
                let mut n = 0u32;
                let mut j = k + 1;
                while j + 1 < instrs.len() && instrs[j].name() == "CopyLast" && instrs[j + 1].name() == "RegisterUpvalue" {
                    n += 1;
                    j += 2;
                }
                match labels.get(&h) {
                    None => out.push(f("closure/unknown-handle", format!("Closure at {} refers to handle {h}, which has no label", ins.addr))),
                    Some(pos) => closures.push((h, *pos as usize, ins.addr, n)),
                }
            }
            "RegisterUpvalue" => {
                let ok = k >= 2 && instrs[k - 1].name() == "CopyLast" && matches!(instrs[k - 2].name(), "Closure" | "RegisterUpvalue");
                if !ok {
                    out.push(f("upvalue/register-misplaced", format!("RegisterUpvalue at {} does not follow Closure / CopyLast", ins.addr)));
                }
            }
            "SetLocalVar" | "ReadLocalVar" => {
                if ins.u32_at(0) >= MAX_LOCALS {
                    out.push(f("local/index-range", format!("{} at {} uses local index {}", ins.name(), ins.addr, ins.u32_at(0))));
                }
            }
            "BeginForEach" => {
                let idx: Vec<u32> = (0..5).map(|i| ins.u32_at(4 * i)).collect();
                let set: BTreeSet<u32> = idx.iter().copied().collect();
                if set.len() != 5 || idx.iter().any(|i| *i >= MAX_LOCALS) {
                    out.push(f("foreach/indices", format!("BeginForEach at {} uses local indices {idx:?}", ins.addr)));
                }
                match instrs.get(k + 1) {
                    Some(n) if n.name() == "ForEach" && n.operand == ins.operand => {}
                    other => out.push(f("foreach/pair", format!("BeginForEach at {} is not followed by a ForEach with the same operands ({:?})", ins.addr, other.map(|o| o.name())))),
                }
            }
            "SetGlobalVar" | "ReadGlobalVar" => {
                let id = ins.u32_at(0);
                if id as usize >= inp.var_ids.len() {
                    out.push(f("global/id-range", format!("{} at {} uses id {id}, {} ids are declared", ins.name(), ins.addr, inp.var_ids.len())));
                }
            }
            _ => {}
        }
    }
    // duplicated closure handles make the body of one closure unreachable
    {
        let mut seen = BTreeMap::new();
        for (h, start, addr, _) in closures.iter() {
            if let Some((s0, a0)) = seen.insert(*h, (*start, *addr)) {
                if a0 != *addr {
                    out.push(f("closure/shared-handle", format!("the Closure instructions at {a0} and {addr} share handle {h} (bodies at {s0} / {start})")));
                }
            }
        }
    }
    // upvalue indices against the innermost enclosing closure region
    let region_of = |addr: usize| -> Option<&(u32, usize, usize, u32)> { closures.iter().filter(|(_, s, e, _)| *s <= addr && addr < *e).min_by_key(|(_, s, e, _)| e - s) };
    for (k, ins) in instrs.iter().enumerate() {
        match ins.name() {
            "ReadUpvalue" | "SetUpvalue" => {
                let idx = ins.u32_at(0);
                match region_of(ins.addr) {
                    None => out.push(f("upvalue/outside-closure", format!("{} at {} is not inside any closure body", ins.name(), ins.addr))),
                    Some((_, _, caddr, n)) => {
                        if idx >= *n {
                            out.push(f("upvalue/index-range", format!("{} at {} uses upvalue {idx}; the closure created at {caddr} registers {n}", ins.name(), ins.addr)));
                        }
                    }
                }
            }
            "RegisterUpvalue" => {
                let idx = ins.operand[0] as u32;
                let is_local = ins.operand[1];
                if is_local > 1 {
                    out.push(f("upvalue/is-local-flag", format!("RegisterUpvalue at {} has flag {is_local}", ins.addr)));
                }
                if is_local == 0 {
                    // refers to an upvalue of the closure whose body creates this closure
                    let _ = k;
                    match region_of(ins.addr) {
                        None => out.push(f("upvalue/non-local-outside-closure", format!("RegisterUpvalue at {} captures an upvalue, but is not inside a closure body", ins.addr))),
                        Some((_, _, caddr, n)) => {
                            if idx >= *n {
                                out.push(f("upvalue/non-local-index-range", format!("RegisterUpvalue at {} captures upvalue {idx} of the closure created at {caddr}, which registers {n}", ins.addr)));
                            }
                        }
                    }
                }
            }
            _ => {}
        }
    }
    // globals: ids and names are a bijection and agree with the source
    let ids: BTreeSet<u32> = inp.var_ids.iter().map(|x| x.1).collect();
    if ids.len() != inp.var_ids.len() || ids.iter().enumerate().any(|(i, id)| i as u32 != *id) {
        out.push(f("globals/ids-not-dense", format!("variable ids are {:?}", inp.var_ids.iter().map(|x| x.1).collect::<Vec<_>>())));
    }
    if inp.var_names.len() != inp.var_ids.len() {
        out.push(f("globals/count", format!("{} ids, {} names", inp.var_ids.len(), inp.var_names.len())));
    }
    let names_by_handle: BTreeMap<u32, &String> = inp.var_names.iter().map(|(h, n)| (*h, n)).collect();
    let ids_by_handle: BTreeMap<u32, u32> = inp.var_ids.iter().copied().collect();
    for (_, id) in inp.var_ids.iter() {
        let Some(ih) = inp.id_handles.get(id) else { continue };
        match names_by_handle.get(ih) {
            None => out.push(f("globals/name-missing", format!("id {id} has no name"))),
            Some(name) => match inp.name_handles.get(*name) {
                Some(nh) if ids_by_handle.get(nh) == Some(id) => {}
                _ => out.push(f("globals/name-id-mismatch", format!("id {id} is named {name:?}, but that name does not map back to the id"))),
            },
        }
    }
    for g in inp.source_globals.iter() {
        match inp.name_handles.get(g).and_then(|h| ids_by_handle.get(h)) {
            Some(_) => {}
            None => out.push(f("globals/source-name-missing", format!("global {g:?} of the source has no id"))),
        }
    }
    // traces
    let tk: BTreeSet<u32> = inp.trace_keys.iter().copied().collect();
    for k in tk.iter() {
        if !starts.contains(&(*k as usize)) {
            out.push(f("trace/key-not-instruction-start", format!("trace key {k} is not an instruction start")));
        }
    }
    for ins in instrs.iter() {
        let exempt = matches!(ins.name(), "Pop" | "CloseUpvalue" | "Goto" | "GotoIfTrue" | "GotoIfFalse" | "Exit");
        if !exempt && !tk.contains(&(ins.addr as u32)) {
            out.push(f("trace/missing", format!("{} at {} can fail but has no trace entry", ins.name(), ins.addr)));
        }
    }
    // disassembly walks the same boundaries
    if !inp.disassembly.is_empty() {
        let mut dis: Vec<(usize, String)> = Vec::new();
        for line in inp.disassembly.lines() {
            let mut parts = line.split('\t');
            if let (Some(a), Some(n)) = (parts.next(), parts.next()) {
                if let Ok(a) = a.trim().parse::<usize>() {
                    dis.push((a, n.trim().to_string()));
                }
            }
        }
        let mine: Vec<(usize, String)> = instrs.iter().map(|i| (i.addr, i.name().to_string())).collect();
        if dis != mine {
            let i = dis.iter().zip(mine.iter()).position(|(a, b)| a != b).unwrap_or(dis.len().min(mine.len()));
            out.push(f("disassembly/boundaries", format!("the disassembler and the verifier diverge at instruction #{i}: {:?} vs {:?}", dis.get(i), mine.get(i))));
        }
    }
    out
}
