//! Reference semantics of the card language: a deliberately boring tree-walking interpreter with
//! *named* variables (cells), insertion-ordered association lists for tables, and an independent
//! name resolver over the module tree. It never sees bytecode, slots, frames or handles.
//!
//! See DESIGN.md §3 for the rules and for the region ("well-scoped") the generators stay in.
//! Anything the sources leave undefined sets `undefined` in the outcome and is never compared.

use crate::ir::{BinOp, Func, Module, C};
use serde::{Deserialize, Serialize};
use std::cell::RefCell;
use std::collections::BTreeMap;
use std::rc::Rc;

// ------------------------------------------------------------------------------------------------
// values
// ------------------------------------------------------------------------------------------------

#[derive(Clone)]
pub enum V {
    Nil,
    Int(i64),
    Real(f64),
    Str(Rc<String>),
    Table(Rc<RefCell<Vec<(V, V)>>>),
    /// full dotted path of a script function, arity
    Func(Rc<String>, usize),
    Native(Rc<String>),
    Closure(Rc<ClosureVal>),
}

pub struct ClosureVal {
    pub params: Vec<String>,
    pub body: Vec<C>,
    /// variables visible where the closure expression was evaluated, innermost last
    pub captured: Vec<(String, Cell)>,
    /// where the closure card sits (for error locations)
    pub home: FuncId,
    pub path: Vec<u32>,
}

pub type Cell = Rc<RefCell<V>>;

/// deep, address-free image of a value
#[derive(Clone, Debug, PartialEq, Serialize, Deserialize)]
pub enum Ob {
    Nil,
    Int(i64),
    /// bit pattern, so that NaN and -0.0 compare exactly
    Real(u64),
    Str(String),
    Table(Vec<(Ob, Ob)>),
    Func(String),
    Native(String),
    Closure(usize),
    /// a table that contains itself (printed once)
    Cycle,
}

impl Ob {
    pub fn real(f: f64) -> Ob {
        Ob::Real(f.to_bits())
    }
    pub fn short(&self) -> String {
        match self {
            Ob::Nil => "nil".into(),
            Ob::Int(i) => format!("{i}"),
            Ob::Real(b) => format!("{:?}", f64::from_bits(*b)),
            Ob::Str(s) => format!("{s:?}"),
            Ob::Table(t) => format!("{{{}}}", t.iter().map(|(k, v)| format!("{}:{}", k.short(), v.short())).collect::<Vec<_>>().join(",")),
            Ob::Func(n) => format!("fn:{n}"),
            Ob::Native(n) => format!("native:{n}"),
            Ob::Closure(a) => format!("closure/{a}"),
            Ob::Cycle => "<cycle>".into(),
        }
    }
}

pub fn observe(v: &V) -> Ob {
    fn go(v: &V, stack: &mut Vec<*const RefCell<Vec<(V, V)>>>) -> Ob {
        match v {
            V::Nil => Ob::Nil,
            V::Int(i) => Ob::Int(*i),
            V::Real(r) => Ob::real(*r),
            V::Str(s) => Ob::Str((**s).clone()),
            V::Table(t) => {
                let p = Rc::as_ptr(t);
                if stack.contains(&p) {
                    return Ob::Cycle;
                }
                stack.push(p);
                let res = t.borrow().iter().map(|(k, v)| (go(k, stack), go(v, stack))).collect();
                stack.pop();
                Ob::Table(res)
            }
            V::Func(n, _) => Ob::Func((**n).clone()),
            V::Native(n) => Ob::Native((**n).clone()),
            V::Closure(c) => Ob::Closure(c.params.len()),
        }
    }
    go(v, &mut Vec::new())
}

pub fn v_str(s: &str) -> V {
    V::Str(Rc::new(s.to_string()))
}

pub fn new_table() -> V {
    V::Table(Rc::new(RefCell::new(Vec::new())))
}

// ------------------------------------------------------------------------------------------------
// value operations (the coercion table of C01 / C19)
// ------------------------------------------------------------------------------------------------

pub fn obj_len(v: &V) -> Option<usize> {
    match v {
        V::Str(s) => Some(s.len()),
        V::Table(t) => Some(t.borrow().len()),
        V::Func(..) | V::Native(_) | V::Closure(_) => Some(0),
        _ => None,
    }
}

fn to_f64(v: &V) -> f64 {
    match v {
        V::Nil => 0.0,
        V::Int(i) => *i as f64,
        V::Real(r) => *r,
        o => obj_len(o).unwrap_or(0) as f64,
    }
}

fn to_i64(v: &V) -> i64 {
    match v {
        V::Nil => 0,
        V::Int(i) => *i,
        V::Real(r) => *r as i64,
        o => obj_len(o).unwrap_or(0) as i64,
    }
}

pub enum Num {
    I(i64, i64),
    F(f64, f64),
    None,
}

/// if either side is real both become real, else if either is int both become int
pub fn coerce(a: &V, b: &V) -> Num {
    let is_f = |v: &V| matches!(v, V::Real(_));
    let is_i = |v: &V| matches!(v, V::Int(_));
    if is_f(a) || is_f(b) {
        Num::F(to_f64(a), to_f64(b))
    } else if is_i(a) || is_i(b) {
        Num::I(to_i64(a), to_i64(b))
    } else {
        Num::None
    }
}

pub fn truthy(v: &V) -> bool {
    match v {
        V::Nil => false,
        V::Int(i) => *i != 0,
        V::Real(r) => *r != 0.0,
        V::Str(s) => !s.is_empty(),
        V::Table(t) => !t.borrow().is_empty(),
        V::Func(..) | V::Native(_) | V::Closure(_) => true,
    }
}

/// uncoerced structural equality; `None` if the comparison recursed too deep (cyclic tables)
pub fn equals(a: &V, b: &V, depth: usize) -> Option<bool> {
    if depth > 64 {
        return None;
    }
    Some(match (a, b) {
        (V::Nil, V::Nil) => true,
        (V::Int(x), V::Int(y)) => x == y,
        (V::Real(x), V::Real(y)) => x == y,
        (V::Str(x), V::Str(y)) => x == y,
        (V::Table(x), V::Table(y)) => {
            if Rc::ptr_eq(x, y) && depth > 0 {
                // same object: equal unless it holds something that is never equal (a function)
            }
            let (x, y) = (x.borrow(), y.borrow());
            if x.len() != y.len() {
                return Some(false);
            }
            for ((kx, vx), (ky, vy)) in x.iter().zip(y.iter()) {
                if !equals(kx, ky, depth + 1)? || !equals(vx, vy, depth + 1)? {
                    return Some(false);
                }
            }
            true
        }
        // functions, natives, closures are never equal, not even to themselves
        _ => false,
    })
}

#[derive(Clone, Copy, Debug, PartialEq, Eq)]
pub enum Ord3 {
    Less,
    Equal,
    Greater,
    Unordered,
}

/// the coercing order used by Less / LessOrEq / min / max / sort
pub fn compare(a: &V, b: &V) -> Option<Ord3> {
    let f = |o: Option<std::cmp::Ordering>| match o {
        Some(std::cmp::Ordering::Less) => Ord3::Less,
        Some(std::cmp::Ordering::Equal) => Ord3::Equal,
        Some(std::cmp::Ordering::Greater) => Ord3::Greater,
        None => Ord3::Unordered,
    };
    Some(match coerce(a, b) {
        Num::F(x, y) => f(x.partial_cmp(&y)),
        Num::I(x, y) => f(x.partial_cmp(&y)),
        Num::None => match (obj_len(a), obj_len(b)) {
            (Some(la), Some(lb)) => {
                if equals(a, b, 0)? {
                    Ord3::Equal
                } else if la != lb {
                    f(la.partial_cmp(&lb))
                } else {
                    Ord3::Unordered
                }
            }
            _ => Ord3::Unordered, // nil/nil, object/nil
        },
    })
}

// ------------------------------------------------------------------------------------------------
// outcome
// ------------------------------------------------------------------------------------------------

#[derive(Clone, Debug, PartialEq, Eq, Hash, Serialize, Deserialize)]
pub struct FuncId {
    /// module path from the root
    pub ns: Vec<String>,
    /// index of the function inside its module
    pub index: usize,
    pub name: String,
}

impl FuncId {
    pub fn full_name(&self) -> String {
        if self.ns.is_empty() {
            self.name.clone()
        } else {
            format!("{}.{}", self.ns.join("."), self.name)
        }
    }
}

#[derive(Clone, Debug, PartialEq, Serialize, Deserialize)]
pub struct Loc {
    pub ns: Vec<String>,
    pub function: usize,
    pub path: Vec<u32>,
}

#[derive(Clone, Debug, PartialEq, Serialize, Deserialize)]
pub struct RunError {
    /// `ExecutionErrorPayload` variant name; for TaskFailure "TaskFailure(<fn>:<inner kind>)"
    pub kind: String,
    /// the card that raised it
    pub at: Loc,
    /// call cards of the active chain, innermost first
    pub chain: Vec<Loc>,
}

#[derive(Clone, Debug, PartialEq, Serialize, Deserialize)]
pub struct Outcome {
    /// "Ok" or the error kind
    pub result: String,
    pub error: Option<RunError>,
    pub globals: BTreeMap<String, Ob>,
    pub log: Vec<(String, Vec<Ob>)>,
    /// the run reached behaviour the sources leave undefined; nothing is compared
    pub undefined: Option<String>,
    pub steps: u64,
    pub max_call_depth: usize,
    pub allocations_hint: u64,
}

#[derive(Clone, Debug, PartialEq, Eq, Serialize, Deserialize)]
pub enum CompileVerdict {
    Ok,
    /// compilation must fail with one of these `CompilationErrorPayload` variant names
    MustFail(Vec<String>),
    /// the statement does not say (odd imports etc.): either outcome, but never a crash
    Unspecified(String),
}

// ------------------------------------------------------------------------------------------------
// host functions the harness registers (same behaviour on both sides)
// ------------------------------------------------------------------------------------------------

#[derive(Clone, Debug, PartialEq, Serialize, Deserialize)]
pub enum NativeBehaviour {
    /// record the arguments, return nil
    Log,
    /// record the arguments, return the first argument
    Echo,
    /// record the arguments, return an error
    Fail,
    /// record the arguments, return a fresh table holding them under keys 0..k
    Pack,
    /// record, then call the first argument (a function value) with the remaining arguments
    /// through `Vm::run_function`, return its result
    Reenter,
    /// like Reenter, but an error of the callee is swallowed: the host function returns nil
    TryReenter,
}

#[derive(Clone, Debug, PartialEq, Serialize, Deserialize)]
pub struct NativeSpec {
    pub name: String,
    pub arity: usize,
    pub behaviour: NativeBehaviour,
}

pub fn default_natives() -> Vec<NativeSpec> {
    use NativeBehaviour::*;
    let n = |name: &str, arity, behaviour| NativeSpec { name: name.to_string(), arity, behaviour };
    vec![
        n("log", 1, Log),
        n("log0", 0, Log),
        n("log2", 2, Log),
        n("log3", 3, Log),
        n("echo", 1, Echo),
        n("echo2", 2, Echo),
        n("fail", 1, Fail),
        n("pack2", 2, Pack),
        n("reenter0", 1, Reenter),
        n("reenter1", 2, Reenter),
        n("reenter2", 3, Reenter),
        n("try_call", 1, TryReenter),
        n("try_call1", 2, TryReenter),
        n("try_call1_keep", 2, TryReenter),
    ]
}

// ------------------------------------------------------------------------------------------------
// module tree, independent name resolution (C08)
// ------------------------------------------------------------------------------------------------

pub const STD_FUNCTIONS: [(&str, usize); 11] = [
    ("to_array", 1),
    ("filter", 2),
    ("any", 2),
    ("map", 2),
    ("min", 1),
    ("max", 1),
    ("min_by_key", 2),
    ("max_by_key", 2),
    ("sorted_by_key", 2),
    ("sorted", 1),
    ("row_to_value", 2),
];

fn name_valid(n: &str) -> bool {
    !n.is_empty() && n != "super" && n.chars().all(|c| c.is_alphanumeric() || c == '_')
}

pub struct Program<'a> {
    pub root: &'a Module,
    /// full dotted path -> (function id, function)
    pub functions: BTreeMap<String, (FuncId, &'a Func)>,
}

fn collect<'a>(m: &'a Module, ns: &mut Vec<String>, out: &mut BTreeMap<String, (FuncId, &'a Func)>, dups: &mut Vec<String>) {
    for (i, (name, f)) in m.functions.iter().enumerate() {
        let id = FuncId { ns: ns.clone(), index: i, name: name.clone() };
        let full = id.full_name();
        if out.contains_key(&full) {
            dups.push(full.clone());
        } else {
            out.insert(full, (id, f));
        }
    }
    for (name, sub) in m.submodules.iter() {
        ns.push(name.clone());
        collect(sub, ns, out, dups);
        ns.pop();
    }
}

fn module_at<'a>(root: &'a Module, path: &[String]) -> Option<&'a Module> {
    let mut m = root;
    for p in path {
        m = &m.submodules.iter().find(|(n, _)| n == p)?.1;
    }
    Some(m)
}

impl<'a> Program<'a> {
    pub fn new(root: &'a Module) -> Self {
        let mut functions = BTreeMap::new();
        let mut dups = Vec::new();
        collect(root, &mut Vec::new(), &mut functions, &mut dups);
        Program { root, functions }
    }

    fn exists(&self, full: &str) -> bool {
        self.functions.contains_key(full) || full.strip_prefix("std.").map(|r| STD_FUNCTIONS.iter().any(|(n, _)| *n == r)).unwrap_or(false)
    }

    /// The documented lookup order: absolute path, the caller's own module, function imports,
    /// module-prefix imports (`super.` walking up). `None` = resolves to nothing.
    pub fn resolve(&self, caller_ns: &[String], name: &str) -> Option<String> {
        if self.exists(name) {
            return Some(name.to_string());
        }
        let join = |ns: &[String], rest: &str| {
            if ns.is_empty() {
                rest.to_string()
            } else {
                format!("{}.{}", ns.join("."), rest)
            }
        };
        let rel = join(caller_ns, name);
        if self.exists(&rel) {
            return Some(rel);
        }
        let module = module_at(self.root, caller_ns)?;
        let walk = |import: &str, tail: Option<&str>| -> Option<String> {
            let mut segs: Vec<&str> = import.split('.').collect();
            let mut up = 0;
            while segs.first() == Some(&"super") {
                segs.remove(0);
                up += 1;
            }
            if up > caller_ns.len() || segs.iter().any(|s| s.is_empty() || *s == "super") {
                return None;
            }
            let base = &caller_ns[..caller_ns.len() - up];
            let mut rest = segs.join(".");
            if let Some(t) = tail {
                rest = format!("{rest}.{t}");
            }
            let full = join(base, &rest);
            self.exists(&full).then_some(full)
        };
        for import in module.imports.iter() {
            if let Some((_, last)) = import.rsplit_once('.') {
                if last == name {
                    return walk(import, None);
                }
            }
        }
        if let Some((prefix, rest)) = name.split_once('.') {
            for import in module.imports.iter() {
                if let Some((_, last)) = import.rsplit_once('.') {
                    if last == prefix {
                        return walk(import, Some(rest));
                    }
                }
            }
        }
        None
    }

    /// What must compilation do with this module? (C08's must-be-errors; everything else Ok)
    pub fn compile_verdict(&self) -> CompileVerdict {
        let mut must: Vec<String> = Vec::new();
        let mut unspecified: Option<String> = None;
        // structure
        fn walk_modules<'m>(m: &'m Module, ns: &mut Vec<String>, f: &mut dyn FnMut(&'m Module, &[String])) {
            f(m, ns);
            for (n, s) in m.submodules.iter() {
                ns.push(n.clone());
                walk_modules(s, ns, f);
                ns.pop();
            }
        }
        let mut depth_max = 0usize;
        let mut super_limit = false;
        walk_modules(self.root, &mut Vec::new(), &mut |m, ns| {
            depth_max = depth_max.max(ns.len());
            let mut seen_f = Vec::new();
            for (n, _) in m.functions.iter() {
                if !name_valid(n) {
                    must.push("BadFunctionName".into());
                }
                if seen_f.contains(&n) {
                    must.push("DuplicateName".into());
                }
                seen_f.push(n);
            }
            let mut seen_m: Vec<&String> = Vec::new();
            for (n, _) in m.submodules.iter() {
                if seen_m.contains(&n) {
                    must.push("DuplicateModule".into());
                }
                seen_m.push(n);
                if !name_valid(n) {
                    // the statement lists invalid module names as errors; the payload enum has no
                    // dedicated variant, any error is accepted
                    must.push("*".into());
                }
            }
            if ns.is_empty() && m.submodules.iter().any(|(n, _)| n == "std") {
                must.push("DuplicateModule".into());
            }
            let mut lasts: Vec<&str> = Vec::new();
            for imp in m.imports.iter() {
                match imp.rsplit_once('.') {
                    None => must.push("BadImport".into()),
                    Some((_, last)) => {
                        if lasts.contains(&last) {
                            must.push("AmbigousImport".into());
                        }
                        lasts.push(last);
                        let segs: Vec<&str> = imp.split('.').collect();
                        let ups = segs.iter().take_while(|s| **s == "super").count();
                        if ups > ns.len() {
                            // more `super.` than the module is deep: an error *value* once the
                            // import is consulted
                            super_limit = true;
                        }
                        if segs.iter().any(|s| s.is_empty()) || segs.iter().skip(ups).any(|s| *s == "super") {
                            unspecified.get_or_insert_with(|| format!("odd import {imp}"));
                        }
                    }
                }
            }
        });
        if !self.root.functions.iter().any(|(n, _)| n == "main") {
            must.push("NoMain".into());
        }
        if depth_max >= 64 {
            must.push("RecursionLimitReached".into());
        }
        // names used by cards
        for (_, (id, f)) in self.functions.iter() {
            let mut bad_call = false;
            let mut empty_var = false;
            for c in f.cards.iter() {
                c.walk(&mut |c| match c {
                    C::Call(n, _) | C::Function(n) => {
                        if self.resolve(&id.ns, n).is_none() {
                            bad_call = true;
                        }
                    }
                    C::SetVar(n, _) | C::SetGlobal(n, _) | C::ReadVar(n) => {
                        if n.is_empty() || n.split('.').next() == Some("") {
                            empty_var = true;
                        }
                    }
                    C::Repeat { i: Some(n), .. } if n.is_empty() => empty_var = true,
                    C::ForEach { i, k, v, .. } => {
                        for n in [i, k, v].into_iter().flatten() {
                            if n.is_empty() {
                                empty_var = true;
                            }
                        }
                    }
                    C::Closure(params, _) => {
                        if params.iter().any(|p| p.is_empty()) {
                            empty_var = true;
                        }
                    }
                    _ => {}
                });
            }
            if f.params.iter().any(|p| p.is_empty()) {
                empty_var = true;
            }
            if bad_call {
                must.push("InvalidJump".into());
            }
            if empty_var {
                must.push("EmptyVariable".into());
            }
        }
        // imports that are merely odd are only required not to resolve to anything and never to
        // crash: nothing more is demanded of a module tree that contains one
        if let Some(u) = unspecified {
            return CompileVerdict::Unspecified(u);
        }
        if !must.is_empty() {
            if super_limit {
                must.push("SuperLimitReached".into());
            }
            must.sort();
            must.dedup();
            return CompileVerdict::MustFail(must);
        }
        CompileVerdict::Ok
    }
}

// ------------------------------------------------------------------------------------------------
// interpreter
// ------------------------------------------------------------------------------------------------

enum Flow {
    /// early return from the current function with a value
    Return(V),
    /// program ends Ok
    Abort,
    Error(RunError),
    /// fuel / depth exhausted or undefined behaviour reached: stop, compare nothing
    #[allow(dead_code)]
    Stop(String),
}

type R<T> = Result<T, Flow>;

struct Frame {
    id: FuncId,
    /// scopes of named variables, innermost last
    scopes: Vec<Vec<(String, Cell)>>,
    /// variables captured by the closure this frame executes, innermost last
    captured: Vec<(String, Cell)>,
    /// the call card that created this frame
    call_site: Option<Loc>,
}

pub struct Interp<'a> {
    prog: Program<'a>,
    natives: Vec<NativeSpec>,
    globals: BTreeMap<String, V>,
    any_global_assigned: bool,
    log: Vec<(String, Vec<Ob>)>,
    frames: Vec<Frame>,
    steps: u64,
    fuel: u64,
    max_depth: usize,
    depth_limit: usize,
    undefined: Option<String>,
    allocs: u64,
}

pub const DEFAULT_FUEL: u64 = 20_000;

impl<'a> Interp<'a> {
    pub fn new(root: &'a Module, natives: Vec<NativeSpec>) -> Self {
        Interp {
            prog: Program::new(root),
            natives,
            globals: BTreeMap::new(),
            any_global_assigned: false,
            log: Vec::new(),
            frames: Vec::new(),
            steps: 0,
            fuel: DEFAULT_FUEL,
            max_depth: 0,
            depth_limit: 240,
            undefined: None,
            allocs: 0,
        }
    }

    pub fn with_fuel(mut self, fuel: u64) -> Self {
        self.fuel = fuel;
        self
    }

    pub fn program(&self) -> &Program<'a> {
        &self.prog
    }

    fn loc(&self, path: &[u32]) -> Loc {
        let f = self.frames.last().unwrap();
        Loc { ns: f.id.ns.clone(), function: f.id.index, path: path.to_vec() }
    }

    fn err(&self, kind: &str, path: &[u32]) -> Flow {
        let chain = self.frames.iter().rev().filter_map(|f| f.call_site.clone()).collect();
        Flow::Error(RunError { kind: kind.to_string(), at: self.loc(path), chain })
    }

    fn undefined(&mut self, why: &str) -> Flow {
        self.undefined.get_or_insert_with(|| why.to_string());
        Flow::Stop(why.to_string())
    }

    fn tick(&mut self) -> R<()> {
        self.steps += 1;
        if self.steps > self.fuel {
            return Err(self.undefined("reference fuel exhausted"));
        }
        Ok(())
    }

    // ---- variables -------------------------------------------------------------------------

    fn lookup(&self, name: &str) -> Option<Cell> {
        let f = self.frames.last().unwrap();
        for scope in f.scopes.iter().rev() {
            for (n, c) in scope.iter().rev() {
                if n == name {
                    return Some(c.clone());
                }
            }
        }
        for (n, c) in f.captured.iter().rev() {
            if n == name {
                return Some(c.clone());
            }
        }
        None
    }

    fn declare(&mut self, name: &str, v: V) {
        let f = self.frames.last_mut().unwrap();
        f.scopes.last_mut().unwrap().push((name.to_string(), Rc::new(RefCell::new(v))));
    }

    fn read_base(&mut self, name: &str, path: &[u32]) -> R<V> {
        if let Some(c) = self.lookup(name) {
            return Ok(c.borrow().clone());
        }
        match self.globals.get(name) {
            Some(v) => Ok(v.clone()),
            None => {
                if self.any_global_assigned {
                    // the implementation answers nil or VarNotFound depending on id order
                    Err(self.undefined("read of a never-assigned global after another global was assigned"))
                } else {
                    Err(self.err("VarNotFound", path))
                }
            }
        }
    }

    fn table_get(&mut self, t: &V, key: &V, path: &[u32]) -> R<V> {
        match t {
            V::Table(t) => {
                for (k, v) in t.borrow().iter() {
                    match equals(k, key, 0) {
                        Some(true) => return Ok(v.clone()),
                        Some(false) => {}
                        None => return Err(self.undefined("comparison of cyclic tables")),
                    }
                }
                Ok(V::Nil)
            }
            _ => Err(self.err("InvalidArgument", path)),
        }
    }

    fn key_ok(&mut self, key: &V) -> R<()> {
        match key {
            V::Real(r) if r.is_nan() || *r == 0.0 => Err(self.undefined("NaN / signed zero used as a table key")),
            _ => Ok(()),
        }
    }

    fn table_set(&mut self, t: &V, key: V, value: V, path: &[u32]) -> R<()> {
        self.key_ok(&key)?;
        match t {
            V::Table(t) => {
                let mut found = None;
                for (i, (k, _)) in t.borrow().iter().enumerate() {
                    match equals(k, &key, 0) {
                        Some(true) => {
                            found = Some(i);
                            break;
                        }
                        Some(false) => {}
                        None => return Err(self.undefined("comparison of cyclic tables")),
                    }
                }
                match found {
                    Some(i) => t.borrow_mut()[i].1 = value,
                    None => t.borrow_mut().push((key, value)),
                }
                Ok(())
            }
            _ => Err(self.err("InvalidArgument", path)),
        }
    }

    // ---- calls -----------------------------------------------------------------------------

    fn call_value(&mut self, f: &V, args: Vec<V>, path: &[u32]) -> R<V> {
        match f {
            V::Func(name, arity) => {
                if *arity != args.len() {
                    return Err(self.undefined("argument count differs from the callee's arity"));
                }
                self.call_function(&name.clone(), args, path)
            }
            V::Closure(c) => {
                if c.params.len() != args.len() {
                    return Err(self.undefined("argument count differs from the closure's arity"));
                }
                let c = c.clone();
                let site = self.loc(path);
                self.enter(Frame { id: c.home.clone(), scopes: vec![vec![]], captured: c.captured.clone(), call_site: Some(site) }, path)?;
                self.bind_params(&c.params, args);
                let mut p = c.path.clone();
                let r = self.run_body(&c.body, &mut p);
                self.frames.pop();
                r
            }
            V::Native(name) => self.call_native(&name.clone(), args, path),
            _ => Err(self.err("InvalidArgument", path)),
        }
    }

    fn enter(&mut self, frame: Frame, path: &[u32]) -> R<()> {
        if self.frames.len() >= self.depth_limit {
            let _ = path;
            return Err(self.undefined("reference call depth limit"));
        }
        self.frames.push(frame);
        self.max_depth = self.max_depth.max(self.frames.len());
        Ok(())
    }

    /// the first declared parameter receives the last argument
    fn bind_params(&mut self, params: &[String], args: Vec<V>) {
        let n = params.len();
        for (i, p) in params.iter().enumerate().rev() {
            // declared in reverse order, like the locals of the compiled function
            let v = args[n - 1 - i].clone();
            self.declare(p, v);
        }
    }

    fn call_function(&mut self, full: &str, args: Vec<V>, path: &[u32]) -> R<V> {
        if let Some(rest) = full.strip_prefix("std.") {
            if !self.prog.functions.contains_key(full) {
                return self.call_std(rest, args, path);
            }
        }
        let (id, f) = match self.prog.functions.get(full) {
            Some((id, f)) => (id.clone(), *f),
            None => return Err(self.err("ProcedureNotFound", path)),
        };
        if f.params.len() != args.len() {
            return Err(self.undefined("argument count differs from the callee's arity"));
        }
        let site = self.loc(path);
        self.enter(Frame { id, scopes: vec![vec![]], captured: vec![], call_site: Some(site) }, path)?;
        self.bind_params(&f.params, args);
        let mut p = Vec::new();
        let r = self.run_body(&f.cards, &mut p);
        self.frames.pop();
        r
    }

    /// runs the cards of a function / closure body; the value of the call
    fn run_body(&mut self, cards: &[C], path: &mut Vec<u32>) -> R<V> {
        for (i, c) in cards.iter().enumerate() {
            path.push(i as u32);
            let r = self.exec(c, path);
            path.pop();
            match r {
                Ok(_) => {}
                Err(Flow::Return(v)) => return Ok(v),
                Err(e) => return Err(e),
            }
        }
        Ok(V::Nil)
    }

    fn call_native(&mut self, name: &str, args: Vec<V>, path: &[u32]) -> R<V> {
        let Some(spec) = self.natives.iter().find(|n| n.name == name).cloned() else {
            return Err(self.err("ProcedureNotFound", path));
        };
        if spec.arity != args.len() {
            return Err(self.undefined("argument count differs from the host function's arity"));
        }
        self.log.push((name.to_string(), args.iter().map(observe).collect()));
        match spec.behaviour {
            NativeBehaviour::Log => Ok(V::Nil),
            NativeBehaviour::Echo => Ok(args.first().cloned().unwrap_or(V::Nil)),
            NativeBehaviour::Fail => Err(self.err(&format!("TaskFailure({name}:InvalidArgument)"), path)),
            NativeBehaviour::Pack => {
                self.allocs += 1;
                let t = new_table();
                if let V::Table(tt) = &t {
                    for (i, a) in args.iter().enumerate() {
                        tt.borrow_mut().push((V::Int(i as i64), a.clone()));
                    }
                }
                Ok(t)
            }
            NativeBehaviour::TryReenter => {
                let f = args[0].clone();
                match self.call_value(&f, args[1..].to_vec(), path) {
                    Ok(v) => Ok(v),
                    Err(Flow::Error(_)) => Ok(V::Nil),
                    Err(other) => Err(other),
                }
            }
            NativeBehaviour::Reenter => {
                let f = args[0].clone();
                let rest: Vec<V> = args[1..].to_vec();
                match self.call_value(&f, rest, path) {
                    Ok(v) => Ok(v),
                    Err(Flow::Error(e)) => {
                        // an error inside the re-entered script surfaces as a failure of the host function
                        let kind = format!("TaskFailure({name}:{})", e.kind);
                        Err(self.err(&kind, path))
                    }
                    Err(other) => Err(other),
                }
            }
        }
    }

    // ---- standard library specification (C09) ----------------------------------------------

    fn callback(&mut self, f: &V, args: Vec<V>, path: &[u32]) -> R<V> {
        self.call_value(f, args, path)
    }

    fn row(&mut self, k: V, v: V) -> V {
        self.allocs += 3;
        let t = new_table();
        if let V::Table(tt) = &t {
            tt.borrow_mut().push((v_str("key"), k));
            tt.borrow_mut().push((v_str("value"), v));
        }
        t
    }

    fn call_std(&mut self, name: &str, args: Vec<V>, path: &[u32]) -> R<V> {
        let arity = STD_FUNCTIONS.iter().find(|(n, _)| *n == name).map(|x| x.1);
        match arity {
            None => return Err(self.err("ProcedureNotFound", path)),
            Some(a) if a != args.len() => return Err(self.undefined("argument count differs from the library function's arity")),
            _ => {}
        }
        // declared parameters (iterable, callback): the first declared receives the last argument
        let mut rev = args;
        rev.reverse();
        let iterable = rev[0].clone();
        let entries: Option<Vec<(V, V)>> = match &iterable {
            V::Table(t) => Some(t.borrow().clone()),
            _ => None,
        };
        match name {
            "row_to_value" => Ok(rev[1].clone()), // (_key, val): val is declared second -> first argument
            "filter" | "map" | "any" => {
                let cb = rev[1].clone();
                let Some(entries) = entries else {
                    // the for-each inside rejects a non-table
                    return Err(self.err("InvalidArgument", path));
                };
                let res = new_table();
                self.allocs += 1;
                // for-each re-reads the length every step; callbacks that mutate the input are
                // outside the contract ("none of them modifies its input")
                for (i, (k, v)) in entries.iter().enumerate() {
                    let r = self.callback(&cb, vec![V::Int(i as i64), v.clone(), k.clone()], path)?;
                    match name {
                        "filter" => {
                            if truthy(&r) {
                                self.table_set(&res, k.clone(), v.clone(), path)?;
                            }
                        }
                        "map" => self.table_set(&res, k.clone(), r, path)?,
                        _ => {
                            if truthy(&r) {
                                return Ok(k.clone());
                            }
                        }
                    }
                }
                Ok(if name == "any" { V::Nil } else { res })
            }
            "to_array" => {
                let Some(entries) = entries else { return Ok(iterable) };
                let res = new_table();
                self.allocs += 1;
                if let V::Table(t) = &res {
                    for (i, (_, v)) in entries.iter().enumerate() {
                        t.borrow_mut().push((V::Int(i as i64), v.clone()));
                    }
                }
                Ok(res)
            }
            "min" | "max" | "min_by_key" | "max_by_key" | "sorted" | "sorted_by_key" => {
                let Some(entries) = entries else { return Ok(iterable) };
                let keyfn = if name.ends_with("by_key") { Some(rev[1].clone()) } else { None };
                let mut keyed: Vec<(V, V, V)> = Vec::new();
                for (k, v) in entries.iter() {
                    let key = match &keyfn {
                        // key functions are called with (value, key): declared (key, value)
                        Some(f) => self.callback(f, vec![v.clone(), k.clone()], path)?,
                        None => v.clone(),
                    };
                    keyed.push((key, k.clone(), v.clone()));
                }
                // "smallest", "largest", "ascending" are only defined when the compared results
                // are mutually comparable
                for a in 0..keyed.len() {
                    for b in a + 1..keyed.len() {
                        match compare(&keyed[a].0, &keyed[b].0) {
                            Some(Ord3::Unordered) | None => return Err(self.undefined("min/max/sort over incomparable values")),
                            _ => {}
                        }
                    }
                }
                if name.starts_with("sorted") {
                    // stable insertion sort under the language's order
                    let mut out: Vec<(V, V, V)> = Vec::new();
                    for e in keyed {
                        let mut pos = out.len();
                        while pos > 0 && compare(&e.0, &out[pos - 1].0) == Some(Ord3::Less) {
                            pos -= 1;
                        }
                        out.insert(pos, e);
                    }
                    let res = new_table();
                    self.allocs += 1;
                    for (_, k, v) in out {
                        self.table_set(&res, k, v, path)?;
                    }
                    return Ok(res);
                }
                if keyed.is_empty() {
                    return Ok(V::Nil);
                }
                let want = if name.starts_with("min") { Ord3::Less } else { Ord3::Greater };
                let mut best = 0;
                for i in 1..keyed.len() {
                    if compare(&keyed[i].0, &keyed[best].0) == Some(want) {
                        best = i;
                    }
                }
                let (_, k, v) = keyed[best].clone();
                Ok(self.row(k, v))
            }
            _ => Err(self.err("ProcedureNotFound", path)),
        }
    }

    // ---- cards -----------------------------------------------------------------------------

    /// evaluates a card that must produce a value
    fn eval(&mut self, c: &C, path: &mut Vec<u32>) -> R<V> {
        match self.exec(c, path)? {
            Some(v) => Ok(v),
            None => Err(self.undefined("a card without a value is used where a value is consumed")),
        }
    }

    fn child(&mut self, c: &C, i: u32, path: &mut Vec<u32>) -> R<V> {
        path.push(i);
        let r = self.eval(c, path);
        path.pop();
        r
    }

    fn child_stmt(&mut self, c: &C, i: u32, path: &mut Vec<u32>) -> R<Option<V>> {
        path.push(i);
        let r = self.exec(c, path);
        path.pop();
        r
    }

    fn num_bin(&mut self, op: BinOp, a: &V, b: &V) -> R<V> {
        Ok(match coerce(a, b) {
            Num::I(x, y) => {
                let r = match op {
                    BinOp::Add => x.checked_add(y),
                    BinOp::Sub => x.checked_sub(y),
                    BinOp::Mul => x.checked_mul(y),
                    _ => return Ok(V::Real(x as f64 / y as f64)),
                };
                match r {
                    Some(r) => V::Int(r),
                    None => return Err(self.undefined("integer overflow")),
                }
            }
            Num::F(x, y) => V::Real(match op {
                BinOp::Add => x + y,
                BinOp::Sub => x - y,
                BinOp::Mul => x * y,
                _ => x / y,
            }),
            Num::None => V::Nil,
        })
    }

    /// `Ok(Some(v))` for expression cards, `Ok(None)` for statement cards
    fn exec(&mut self, c: &C, path: &mut Vec<u32>) -> R<Option<V>> {
        self.tick()?;
        Ok(Some(match c {
            C::Nil => V::Nil,
            C::Int(i) => V::Int(*i),
            C::Float(f) => V::Real(*f),
            C::Str(s) => {
                self.allocs += 1;
                v_str(s)
            }
            C::CreateTable => {
                self.allocs += 1;
                new_table()
            }
            C::Comment(_) => return Ok(None),
            C::Abort => return Err(Flow::Abort),
            C::Bin(op, a, b) => {
                let x = self.child(a, 0, path)?;
                let y = self.child(b, 1, path)?;
                let bool_v = |b: bool| V::Int(b as i64);
                match op {
                    BinOp::Add | BinOp::Sub | BinOp::Mul | BinOp::Div => self.num_bin(*op, &x, &y)?,
                    BinOp::Equals | BinOp::NotEquals => match equals(&x, &y, 0) {
                        Some(e) => bool_v(e == (*op == BinOp::Equals)),
                        None => return Err(self.undefined("comparison of cyclic tables")),
                    },
                    BinOp::Less | BinOp::LessOrEq => {
                        let involves_nan = |v: &V| matches!(v, V::Real(r) if r.is_nan());
                        if involves_nan(&x) || involves_nan(&y) {
                            return Err(self.undefined("comparison involving NaN"));
                        }
                        match compare(&x, &y) {
                            Some(o) => bool_v(o == Ord3::Less || (*op == BinOp::LessOrEq && o == Ord3::Equal)),
                            None => return Err(self.undefined("comparison of cyclic tables")),
                        }
                    }
                    BinOp::And => bool_v(truthy(&x) && truthy(&y)),
                    BinOp::Or => bool_v(truthy(&x) || truthy(&y)),
                    BinOp::Xor => bool_v(truthy(&x) ^ truthy(&y)),
                }
            }
            C::Not(a) => {
                let x = self.child(a, 0, path)?;
                V::Int(!truthy(&x) as i64)
            }
            C::Len(a) => {
                let x = self.child(a, 0, path)?;
                V::Int(match &x {
                    V::Nil => 0,
                    V::Int(_) | V::Real(_) => 1,
                    o => obj_len(o).unwrap_or(0) as i64,
                })
            }
            C::Return(a) => {
                let x = self.child(a, 0, path)?;
                if self.frames.len() == 1 {
                    return Err(self.undefined("Return directly in main"));
                }
                return Err(Flow::Return(x));
            }
            C::SetProperty(value, table, key) => {
                let v = self.child(value, 0, path)?;
                let t = self.child(table, 1, path)?;
                let k = self.child(key, 2, path)?;
                self.table_set(&t, k, v, path)?;
                return Ok(None);
            }
            C::GetProperty(table, key) => {
                let t = self.child(table, 0, path)?;
                let k = self.child(key, 1, path)?;
                self.table_get(&t, &k, path)?
            }
            C::Get(table, index) => {
                let t = self.child(table, 0, path)?;
                let i = self.child(index, 1, path)?;
                let V::Table(tt) = &t else {
                    return Err(self.err("InvalidArgument", path));
                };
                let V::Int(i) = i else {
                    return Err(self.err("InvalidArgument", path));
                };
                if i < 0 {
                    return Err(self.err("InvalidArgument", path));
                }
                let e = tt.borrow().get(i as usize).cloned();
                match e {
                    Some((k, v)) => self.row(k, v),
                    None => return Err(self.undefined("Get with an index beyond the length")),
                }
            }
            C::Append(value, table) => {
                let v = self.child(value, 0, path)?;
                let t = self.child(table, 1, path)?;
                let V::Table(tt) = &t else {
                    return Err(self.err("InvalidArgument", path));
                };
                // smallest unused integer key not below the current length
                let mut idx = tt.borrow().len() as i64;
                while tt.borrow().iter().any(|(k, _)| matches!(k, V::Int(i) if *i == idx)) {
                    idx += 1;
                }
                tt.borrow_mut().push((V::Int(idx), v));
                return Ok(None);
            }
            C::PopTable(table) => {
                let t = self.child(table, 0, path)?;
                let V::Table(tt) = &t else {
                    return Err(self.err("InvalidArgument", path));
                };
                let e = tt.borrow_mut().pop();
                e.map(|(_, v)| v).unwrap_or(V::Nil)
            }
            C::Array(items) => {
                self.allocs += 1;
                let t = new_table();
                for (i, item) in items.iter().enumerate() {
                    let v = self.child_stmt(item, i as u32, path)?.unwrap_or(V::Nil);
                    if let V::Table(tt) = &t {
                        let mut idx = tt.borrow().len() as i64;
                        while tt.borrow().iter().any(|(k, _)| matches!(k, V::Int(x) if *x == idx)) {
                            idx += 1;
                        }
                        tt.borrow_mut().push((V::Int(idx), v));
                    }
                }
                t
            }
            C::CallNative(name, args) => {
                let mut vals = Vec::new();
                for (i, a) in args.iter().enumerate() {
                    vals.push(self.child(a, i as u32, path)?);
                }
                self.call_native(name, vals, path)?
            }
            C::Call(name, args) => {
                let mut vals = Vec::new();
                for (i, a) in args.iter().enumerate() {
                    vals.push(self.child(a, i as u32, path)?);
                }
                let ns = self.frames.last().unwrap().id.ns.clone();
                let Some(full) = self.prog.resolve(&ns, name) else {
                    return Err(self.undefined("unresolved call reached at run time"));
                };
                self.allocs += 1;
                self.call_function(&full, vals, path)?
            }
            C::DynCall(f, args) => {
                // arguments first, then the function value (compile order)
                let mut vals = Vec::new();
                for (i, a) in args.iter().enumerate() {
                    vals.push(self.child(a, i as u32 + 1, path)?);
                }
                let fv = self.child(f, 0, path)?;
                self.call_value(&fv, vals, path)?
            }
            C::Function(name) => {
                let ns = self.frames.last().unwrap().id.ns.clone();
                let Some(full) = self.prog.resolve(&ns, name) else {
                    return Err(self.undefined("unresolved function reference reached at run time"));
                };
                let arity = match self.prog.functions.get(&full) {
                    Some((_, f)) => f.params.len(),
                    None => STD_FUNCTIONS.iter().find(|(n, _)| full.strip_prefix("std.") == Some(n)).map(|x| x.1).unwrap_or(0),
                };
                self.allocs += 1;
                V::Func(Rc::new(full), arity)
            }
            C::NativeFunction(name) => {
                self.allocs += 1;
                V::Native(Rc::new(name.clone()))
            }
            C::Closure(params, body) => {
                self.allocs += 1;
                let f = self.frames.last().unwrap();
                let mut captured = f.captured.clone();
                for scope in f.scopes.iter() {
                    captured.extend(scope.iter().cloned());
                }
                V::Closure(Rc::new(ClosureVal { params: params.clone(), body: body.clone(), captured, home: f.id.clone(), path: path.clone() }))
            }
            C::SetGlobal(name, value) => {
                let v = self.child(value, 0, path)?;
                self.globals.insert(name.clone(), v);
                self.any_global_assigned = true;
                return Ok(None);
            }
            C::SetVar(name, value) => {
                let v = self.child(value, 0, path)?;
                match name.rsplit_once('.') {
                    Some((tpath, prop)) => {
                        let t = self.read_path(tpath, path)?;
                        self.allocs += 1;
                        self.table_set(&t, v_str(prop), v, path)?;
                    }
                    None => match self.lookup(name) {
                        Some(cell) => *cell.borrow_mut() = v,
                        None => self.declare(name, v),
                    },
                }
                return Ok(None);
            }
            C::ReadVar(name) => self.read_path(name, path)?,
            C::IfTrue(cond, body) => {
                let c = self.child(cond, 0, path)?;
                if truthy(&c) {
                    self.child_stmt(body, 1, path)?;
                }
                return Ok(None);
            }
            C::IfFalse(cond, body) => {
                let c = self.child(cond, 0, path)?;
                if !truthy(&c) {
                    self.child_stmt(body, 1, path)?;
                }
                return Ok(None);
            }
            C::IfElse(cond, then, els) => {
                let c = self.child(cond, 0, path)?;
                if truthy(&c) {
                    self.child_stmt(then, 1, path)?;
                } else {
                    self.child_stmt(els, 2, path)?;
                }
                return Ok(None);
            }
            C::While(cond, body) => {
                loop {
                    let c = self.child(cond, 0, path)?;
                    if !truthy(&c) {
                        break;
                    }
                    self.frames.last_mut().unwrap().scopes.push(vec![]);
                    let r = self.child_stmt(body, 1, path);
                    self.frames.last_mut().unwrap().scopes.pop();
                    r?;
                }
                return Ok(None);
            }
            C::Repeat { n, i, body } => {
                let n = self.child(n, 0, path)?;
                let mut counter: i64 = 0;
                loop {
                    self.tick()?;
                    let go = match compare(&V::Int(counter), &n) {
                        Some(o) => o == Ord3::Less,
                        None => return Err(self.undefined("comparison of cyclic tables")),
                    };
                    if matches!(&n, V::Real(r) if r.is_nan()) {
                        return Err(self.undefined("comparison involving NaN"));
                    }
                    if !go {
                        break;
                    }
                    self.frames.last_mut().unwrap().scopes.push(vec![]);
                    if let Some(i) = i {
                        self.declare(i, V::Int(counter));
                    }
                    let r = self.child_stmt(body, 1, path);
                    self.frames.last_mut().unwrap().scopes.pop();
                    r?;
                    counter += 1;
                }
                return Ok(None);
            }
            C::ForEach { i, k, v, iterable, body } => {
                let t = self.child(iterable, 0, path)?;
                let V::Table(tt) = &t else {
                    return Err(self.err("InvalidArgument", path));
                };
                let mut idx = 0usize;
                loop {
                    self.tick()?;
                    let e = tt.borrow().get(idx).cloned();
                    let Some((key, val)) = e else { break };
                    self.frames.last_mut().unwrap().scopes.push(vec![]);
                    if let Some(v) = v {
                        self.declare(v, val);
                    }
                    if let Some(k) = k {
                        self.declare(k, key);
                    }
                    if let Some(i) = i {
                        self.declare(i, V::Int(idx as i64));
                    }
                    let r = self.child_stmt(body, 1, path);
                    self.frames.last_mut().unwrap().scopes.pop();
                    r?;
                    idx += 1;
                }
                return Ok(None);
            }
            C::Composite(_, cards) => {
                let mut last = None;
                for (i, c) in cards.iter().enumerate() {
                    last = self.child_stmt(c, i as u32, path)?;
                }
                return Ok(if c.produces_value() { last } else { None });
            }
        }))
    }

    fn read_path(&mut self, name: &str, path: &[u32]) -> R<V> {
        let mut segs = name.split('.');
        let base = segs.next().unwrap_or("");
        let mut v = self.read_base(base, path)?;
        for prop in segs.filter(|p| !p.is_empty()) {
            self.allocs += 1;
            v = self.table_get(&v, &v_str(prop), path)?;
        }
        Ok(v)
    }

    // ---- entry -----------------------------------------------------------------------------

    pub fn run(mut self) -> Outcome {
        let (id, f) = match self.prog.functions.get("main") {
            Some((id, f)) => (id.clone(), *f),
            None => {
                return Outcome {
                    result: "NoMain".into(),
                    error: None,
                    globals: BTreeMap::new(),
                    log: vec![],
                    undefined: Some("no main".into()),
                    steps: 0,
                    max_call_depth: 0,
                    allocations_hint: 0,
                }
            }
        };
        self.frames.push(Frame { id, scopes: vec![vec![]], captured: vec![], call_site: None });
        self.max_depth = 1;
        if !f.params.is_empty() {
            self.undefined = Some("parameters on main".into());
        }
        let mut path = Vec::new();
        let mut result = "Ok".to_string();
        let mut error = None;
        for (i, c) in f.cards.iter().enumerate() {
            path.push(i as u32);
            let r = self.exec(c, &mut path);
            path.pop();
            match r {
                Ok(_) => {}
                Err(Flow::Abort) => break,
                Err(Flow::Return(_)) => {
                    self.undefined.get_or_insert_with(|| "Return directly in main".into());
                    break;
                }
                Err(Flow::Error(e)) => {
                    result = e.kind.clone();
                    error = Some(e);
                    break;
                }
                Err(Flow::Stop(_)) => break,
            }
        }
        Outcome {
            result,
            error,
            globals: self.globals.iter().map(|(k, v)| (k.clone(), observe(v))).collect(),
            log: self.log,
            undefined: self.undefined,
            steps: self.steps,
            max_call_depth: self.max_depth,
            allocations_hint: self.allocs,
        }
    }
}

pub fn run_reference(m: &Module, natives: &[NativeSpec]) -> Outcome {
    Interp::new(m, natives.to_vec()).run()
}
