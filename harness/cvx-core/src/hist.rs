//! E-hist: explicit-state breadth-first search over operation histories of a real object.
//!
//! A state is the history that reaches it; the real object (plus its reference model) is re-built
//! from scratch by replay for every expansion, because the subjects are neither `Clone`-faithful
//! nor snapshot-able. De-duplication uses a canonical dump of the *concrete representation*
//! supplied by the system, so merged states have identical futures.
//!
//! The search is level-synchronous and runs on several threads inside one worker process (every
//! thread builds its own instances; only the set of seen canonical states is shared).

use crate::engine::{panic_message, trace_case, trace_enabled, ChunkResult, Violation};
use serde::Serialize;
use serde_json::{json, Value};
use std::collections::HashSet;
use std::fmt::Debug;
use std::panic::{catch_unwind, AssertUnwindSafe};
use std::sync::atomic::{AtomicBool, AtomicUsize, Ordering};
use std::sync::Mutex;

/// (finding key, human readable description)
pub type Diverge = (String, String);

pub trait HistSystem: Sync {
    type Op: Clone + Serialize + Debug + Send + Sync;
    type Inst;
    fn fresh(&self) -> Self::Inst;
    /// operations enabled in this state
    fn ops(&self, inst: &Self::Inst) -> Vec<Self::Op>;
    /// apply `op` to the real object and to the model and compare the step result
    fn apply(&self, inst: &mut Self::Inst, op: &Self::Op) -> Result<(), Diverge>;
    /// every observation-only call compared with the model
    fn invariants(&self, inst: &mut Self::Inst) -> Result<(), Diverge>;
    /// canonical dump of the concrete representation
    fn canon(&self, inst: &Self::Inst) -> Vec<u8>;
    /// end of history: drop the object, check ledgers
    fn finish(&self, inst: Self::Inst) -> Result<(), Diverge>;
    fn nontrivial(&self, inst: &Self::Inst) -> bool;
    fn op_kind(&self, op: &Self::Op) -> String;
    /// short label of the state for the `outcomes` histogram (vacuity exposure)
    fn outcome(&self, inst: &Self::Inst) -> String;
}

pub struct BfsCfg<'a> {
    pub property: &'a str,
    /// extra fields put into every recorded case (configuration of the system)
    pub case_base: Value,
    pub max_depth: usize,
    /// stop expanding (and report the cap) when this many distinct states were seen
    pub max_states: usize,
    pub threads: usize,
    /// wall-clock budget of this search; when it is used up the search stops expanding and
    /// reports the cap (never a verdict)
    pub deadline: Option<std::time::Instant>,
}

fn mk_case<Op: Serialize>(cfg: &BfsCfg, hist: &[Op]) -> Value {
    let mut c = cfg.case_base.clone();
    c["history"] = json!(hist);
    c
}

pub fn guarded<R>(f: impl FnOnce() -> Result<R, Diverge>, what: &str) -> Result<R, Diverge> {
    match catch_unwind(AssertUnwindSafe(f)) {
        Ok(r) => r,
        Err(p) => {
            let msg = panic_message(&p);
            let class: String = msg.chars().filter(|c| !c.is_ascii_digit()).take(60).collect();
            Err((
                format!("panic:{what}:{class}"),
                format!("panic during {what}: {msg}"),
            ))
        }
    }
}

/// Rebuild the state reached by `hist`. Invariants are evaluated after the last step (after every
/// step if `check_all_steps`).
fn run_history<S: HistSystem>(
    sys: &S,
    cfg: &BfsCfg,
    hist: &[S::Op],
    check_all_steps: bool,
    out: &mut ChunkResult,
) -> Result<S::Inst, (usize, Diverge)> {
    trace_case(|| mk_case(cfg, hist));
    let mut inst = guarded(|| Ok(sys.fresh()), "fresh").map_err(|d| (0, d))?;
    if hist.is_empty() {
        if let Err(d) = guarded(|| sys.invariants(&mut inst), "invariants-initial") {
            std::mem::forget(inst);
            return Err((0, d));
        }
    }
    for (i, op) in hist.iter().enumerate() {
        let last = i + 1 == hist.len();
        out.transitions += 1;
        let kind = sys.op_kind(op);
        if let Err(d) = guarded(|| sys.apply(&mut inst, op), &format!("apply:{kind}")) {
            std::mem::forget(inst); // the object may be corrupt; do not run its destructor
            return Err((i, d));
        }
        if last || check_all_steps {
            if let Err(d) = guarded(|| sys.invariants(&mut inst), &format!("invariants-after:{kind}")) {
                std::mem::forget(inst);
                return Err((i, d));
            }
        }
    }
    Ok(inst)
}

const SEEN_SHARDS: usize = 64;

struct Seen {
    shards: Vec<Mutex<HashSet<Vec<u8>>>>,
    len: AtomicUsize,
}

impl Seen {
    fn new() -> Self {
        Seen {
            shards: (0..SEEN_SHARDS).map(|_| Mutex::new(HashSet::new())).collect(),
            len: AtomicUsize::new(0),
        }
    }
    fn insert(&self, k: Vec<u8>) -> bool {
        let mut h: u64 = 0xcbf29ce484222325;
        for b in k.iter() {
            h ^= *b as u64;
            h = h.wrapping_mul(0x100000001b3);
        }
        let fresh = self.shards[(h as usize) % SEEN_SHARDS].lock().unwrap().insert(k);
        if fresh {
            self.len.fetch_add(1, Ordering::SeqCst);
        }
        fresh
    }
    fn len(&self) -> usize {
        self.len.load(Ordering::SeqCst)
    }
}

/// Breadth-first search from the initial state to histories of length `cfg.max_depth`.
pub fn bfs<S: HistSystem>(sys: &S, cfg: &BfsCfg, out: &mut ChunkResult) {
    let seen = Seen::new();
    let mut frontier: Vec<Vec<S::Op>> = Vec::new();
    let capped = AtomicBool::new(false);
    let timed_out = AtomicBool::new(false);

    match run_history(sys, cfg, &[], true, out) {
        Ok(inst) => {
            seen.insert(sys.canon(&inst));
            if sys.nontrivial(&inst) {
                out.nontrivial += 1;
            }
            out.outcome(sys.outcome(&inst));
            out.states += 1;
            out.evaluations += 1;
            out.traces += 1;
            match guarded(|| sys.finish(inst), "finish") {
                Err(d) => out.violation(Violation::new(cfg.property, d.0, d.1, mk_case::<S::Op>(cfg, &[]))),
                Ok(()) => frontier.push(vec![]),
            }
        }
        Err((_, d)) => {
            out.evaluations += 1;
            out.violation(Violation::new(cfg.property, d.0, d.1, mk_case::<S::Op>(cfg, &[])));
            return;
        }
    }

    let threads = if trace_enabled() { 1 } else { cfg.threads.max(1) };
    let mut depth = 0usize;
    while depth < cfg.max_depth && !frontier.is_empty() {
        let cursor = AtomicUsize::new(0);
        let results: Mutex<Vec<(ChunkResult, Vec<Vec<S::Op>>)>> = Mutex::new(Vec::new());
        std::thread::scope(|scope| {
            for _ in 0..threads.min(frontier.len()) {
                scope.spawn(|| {
                    crate::engine::silence_panics();
                    let mut local = ChunkResult::default();
                    let mut next: Vec<Vec<S::Op>> = Vec::new();
                    loop {
                        if let Some(dl) = cfg.deadline {
                            if std::time::Instant::now() >= dl {
                                capped.store(true, Ordering::SeqCst);
                                timed_out.store(true, Ordering::SeqCst);
                                break;
                            }
                        }
                        let i = cursor.fetch_add(1, Ordering::SeqCst);
                        if i >= frontier.len() {
                            break;
                        }
                        let hist = &frontier[i];
                        let ops = match run_history(sys, cfg, hist, false, &mut local) {
                            Ok(inst) => {
                                let ops = sys.ops(&inst);
                                let _ = guarded(|| sys.finish(inst), "finish");
                                ops
                            }
                            Err(_) => continue, // the history was good when it was enqueued
                        };
                        for op in ops {
                            let mut h = hist.clone();
                            h.push(op);
                            local.evaluations += 1;
                            local.traces += 1;
                            match run_history(sys, cfg, &h, false, &mut local) {
                                Ok(inst) => {
                                    let key = sys.canon(&inst);
                                    let nontrivial = sys.nontrivial(&inst);
                                    let outcome = sys.outcome(&inst);
                                    if let Err(d) = guarded(|| sys.finish(inst), "finish") {
                                        local.violation(Violation::new(cfg.property, d.0, d.1, mk_case(cfg, &h)));
                                        continue;
                                    }
                                    if seen.len() >= cfg.max_states {
                                        capped.store(true, Ordering::SeqCst);
                                        continue;
                                    }
                                    if seen.insert(key) {
                                        if nontrivial {
                                            local.nontrivial += 1;
                                        }
                                        local.outcome(outcome);
                                        local.sample(|| mk_case(cfg, &h));
                                        local.states += 1;
                                        next.push(h);
                                    }
                                }
                                Err((_i, d)) => {
                                    local.violation(Violation::new(cfg.property, d.0, d.1, mk_case(cfg, &h)));
                                }
                            }
                        }
                    }
                    results.lock().unwrap().push((local, next));
                });
            }
        });
        let mut next_all: Vec<Vec<S::Op>> = Vec::new();
        for (r, n) in results.into_inner().unwrap() {
            out.merge(r);
            next_all.extend(n);
        }
        frontier = next_all;
        if timed_out.load(Ordering::SeqCst) {
            out.count("time_cap_hit", 1);
            out.max_counter("max_depth_fully_explored", depth as u64);
            break;
        }
        depth += 1;
        out.max_counter("max_depth_reached", depth as u64);
    }
    out.count("frontier_at_bound", frontier.len() as u64);
    if frontier.is_empty() {
        out.count("searches_closed", 1);
    }
    if capped.load(Ordering::SeqCst) {
        out.count("state_cap_hit", 1);
    }
}

/// Replay one recorded history with full checking; `Some` if it violates.
pub fn replay<S: HistSystem>(sys: &S, cfg: &BfsCfg, hist: &[S::Op]) -> Option<Violation> {
    let mut out = ChunkResult::default();
    match run_history(sys, cfg, hist, true, &mut out) {
        Ok(inst) => match guarded(|| sys.finish(inst), "finish") {
            Ok(()) => None,
            Err(d) => Some(Violation::new(cfg.property, d.0, d.1, mk_case(cfg, hist))),
        },
        Err((_, d)) => Some(Violation::new(cfg.property, d.0, d.1, mk_case(cfg, hist))),
    }
}
