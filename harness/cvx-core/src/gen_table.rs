//! C07 script seam: every sequence of table operations (as cards) up to a length, on two aliased
//! tables, followed by a complete read-out.

use crate::gen_basic::Family;
use crate::ir::*;

fn log2(name: &str, v: C) -> C {
    sg("_sink", native("log2", vec![s(name), v]))
}

fn keys() -> Vec<C> {
    vec![int(0), int(1), int(7), C::Float(1.5), s("a"), C::Nil]
}

fn values(other: &str) -> Vec<C> {
    vec![int(1), int(2), rv(other)]
}

/// mutating operations on table variable `t` (the other table is `o`)
fn ops(t: &str, o: &str) -> Vec<C> {
    let mut v = Vec::new();
    for k in keys() {
        for val in values(o) {
            v.push(C::SetProperty(b(val), b(rv(t)), b(k.clone())));
        }
    }
    v.push(C::Append(b(int(5)), b(rv(t))));
    v.push(C::Append(b(rv(o)), b(rv(t))));
    v.push(log2("popped", C::PopTable(b(rv(t)))));
    v.push(sv(&format!("{t}.a"), int(9))); // dotted form
    v
}

fn readout(t: &str) -> Vec<C> {
    let mut v = vec![log2(&format!("len {t}"), C::Len(b(rv(t))))];
    for k in keys() {
        v.push(log2(&format!("get {t}"), C::GetProperty(b(rv(t)), b(k))));
    }
    v.push(log2(&format!("dotted {t}"), rv(&format!("{t}.a"))));
    v.push(C::ForEach {
        i: Some("i".into()),
        k: Some("k".into()),
        v: Some("v".into()),
        iterable: b(rv(t)),
        // values that are tables are logged by their length (tables may be cyclic here)
        body: b(comp(vec![log2("row i", rv("i")), log2("row k", rv("k")), log2("row v", C::Len(b(rv("v"))))])),
    });
    // row-by-index for every valid index
    v.push(C::Repeat {
        n: b(C::Len(b(rv(t)))),
        i: Some("ri".into()),
        body: b(comp(vec![sv("row", C::Get(b(rv(t)), b(rv("ri")))), log2("nth key", rv("row.key")), log2("nth value", C::Len(b(rv("row.value"))))])),
    });
    v
}

pub struct FTable {
    pub len_ops: u32,
    pub contexts: u64,
}

impl Family for FTable {
    fn name(&self) -> &'static str {
        match self.len_ops {
            1 => "F-table1",
            2 => "F-table2",
            3 => "F-table3",
            _ => "F-table4",
        }
    }
    fn len(&self) -> u64 {
        let n = (ops("t", "u").len() * 2) as u64;
        n.pow(self.len_ops) * self.contexts
    }
    fn case(&self, idx: u64) -> Module {
        let mut all = ops("t", "u");
        all.extend(ops("u", "t"));
        let n = all.len() as u64;
        let per = n.pow(self.len_ops);
        let ctx = idx / per;
        let mut i = idx % per;
        let mut body: Vec<C> = Vec::new();
        for _ in 0..self.len_ops {
            body.push(all[(i % n) as usize].clone());
            i /= n;
        }
        body.extend(readout("t"));
        body.extend(readout("u"));
        let create = vec![sv("t", C::CreateTable), sv("u", C::CreateTable)];
        match ctx {
            0 => {
                let mut cards = create;
                cards.extend(body);
                module(vec![("main", func(&[], cards))])
            }
            1 => {
                // the tables are created by the caller and reach the callee as arguments
                let mut cards = create;
                cards.push(sg("_sink", call("work", vec![rv("t"), rv("u")])));
                cards.extend(readout("t")); // the caller sees every write
                module(vec![("main", func(&[], cards)), ("work", func(&["u", "t"], body))])
            }
            _ => {
                // a closure holds the tables as captured variables
                let mut cards = create;
                cards.push(sv("cl", C::Closure(vec![], body)));
                cards.push(sg("_sink", C::DynCall(b(rv("cl")), vec![])));
                cards.extend(readout("u"));
                module(vec![("main", func(&[], cards))])
            }
        }
    }
}
