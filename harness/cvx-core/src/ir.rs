//! The harness's own representation of card programs (mirrors `CardBody` one to one, so that any
//! tree shape is expressible) — the reference interpreter and the generators never touch cao-lang
//! types.

use serde::{Deserialize, Serialize};

#[derive(Clone, Copy, Debug, PartialEq, Eq, Hash, Serialize, Deserialize)]
pub enum BinOp {
    Add,
    Sub,
    Mul,
    Div,
    Less,
    LessOrEq,
    Equals,
    NotEquals,
    And,
    Or,
    Xor,
}

pub const ALL_BINOPS: [BinOp; 11] = [
    BinOp::Add,
    BinOp::Sub,
    BinOp::Mul,
    BinOp::Div,
    BinOp::Less,
    BinOp::LessOrEq,
    BinOp::Equals,
    BinOp::NotEquals,
    BinOp::And,
    BinOp::Or,
    BinOp::Xor,
];

#[derive(Clone, Debug, PartialEq, Serialize, Deserialize)]
pub enum C {
    Bin(BinOp, Box<C>, Box<C>),
    Not(Box<C>),
    Return(Box<C>),
    Nil,
    CreateTable,
    Abort,
    Len(Box<C>),
    /// value, table, key (the card's child order)
    SetProperty(Box<C>, Box<C>, Box<C>),
    /// table, key
    GetProperty(Box<C>, Box<C>),
    Int(i64),
    /// stored as the bit pattern in serialised cases (JSON has no NaN / infinity)
    Float(#[serde(with = "f64_bits")] f64),
    Str(String),
    CallNative(String, Vec<C>),
    IfTrue(Box<C>, Box<C>),
    IfFalse(Box<C>, Box<C>),
    IfElse(Box<C>, Box<C>, Box<C>),
    Call(String, Vec<C>),
    Function(String),
    NativeFunction(String),
    SetGlobal(String, Box<C>),
    SetVar(String, Box<C>),
    ReadVar(String),
    Repeat {
        n: Box<C>,
        i: Option<String>,
        body: Box<C>,
    },
    While(Box<C>, Box<C>),
    ForEach {
        i: Option<String>,
        k: Option<String>,
        v: Option<String>,
        iterable: Box<C>,
        body: Box<C>,
    },
    Composite(String, Vec<C>),
    /// function value, arguments
    DynCall(Box<C>, Vec<C>),
    /// table, index
    Get(Box<C>, Box<C>),
    /// value, table
    Append(Box<C>, Box<C>),
    PopTable(Box<C>),
    Array(Vec<C>),
    Closure(Vec<String>, Vec<C>),
    Comment(String),
}

#[derive(Clone, Debug, PartialEq, Default, Serialize, Deserialize)]
pub struct Func {
    pub params: Vec<String>,
    pub cards: Vec<C>,
}

#[derive(Clone, Debug, PartialEq, Default, Serialize, Deserialize)]
pub struct Module {
    pub submodules: Vec<(String, Module)>,
    pub functions: Vec<(String, Func)>,
    pub imports: Vec<String>,
}

mod f64_bits {
    use serde::{Deserialize, Deserializer, Serializer};
    pub fn serialize<S: Serializer>(v: &f64, s: S) -> Result<S::Ok, S::Error> {
        s.serialize_u64(v.to_bits())
    }
    pub fn deserialize<'de, D: Deserializer<'de>>(d: D) -> Result<f64, D::Error> {
        Ok(f64::from_bits(u64::deserialize(d)?))
    }
}

// ---- small constructors ------------------------------------------------------------------------

pub fn b(c: C) -> Box<C> {
    Box::new(c)
}
pub fn int(i: i64) -> C {
    C::Int(i)
}
pub fn s(x: &str) -> C {
    C::Str(x.to_string())
}
pub fn rv(x: &str) -> C {
    C::ReadVar(x.to_string())
}
pub fn sv(x: &str, v: C) -> C {
    C::SetVar(x.to_string(), b(v))
}
pub fn sg(x: &str, v: C) -> C {
    C::SetGlobal(x.to_string(), b(v))
}
pub fn bin(op: BinOp, a: C, c: C) -> C {
    C::Bin(op, b(a), b(c))
}
pub fn call(f: &str, args: Vec<C>) -> C {
    C::Call(f.to_string(), args)
}
pub fn native(f: &str, args: Vec<C>) -> C {
    C::CallNative(f.to_string(), args)
}
pub fn comp(cards: Vec<C>) -> C {
    C::Composite("_".to_string(), cards)
}
pub fn func(params: &[&str], cards: Vec<C>) -> Func {
    Func {
        params: params.iter().map(|p| p.to_string()).collect(),
        cards,
    }
}
pub fn module(functions: Vec<(&str, Func)>) -> Module {
    Module {
        submodules: vec![],
        functions: functions.into_iter().map(|(n, f)| (n.to_string(), f)).collect(),
        imports: vec![],
    }
}

impl C {
    /// does this card leave exactly one value on the stack (an *expression* card)?
    pub fn produces_value(&self) -> bool {
        match self {
            C::Bin(..)
            | C::Not(_)
            | C::Nil
            | C::CreateTable
            | C::Len(_)
            | C::GetProperty(..)
            | C::Int(_)
            | C::Float(_)
            | C::Str(_)
            | C::CallNative(..)
            | C::Call(..)
            | C::Function(_)
            | C::NativeFunction(_)
            | C::ReadVar(_)
            | C::DynCall(..)
            | C::Get(..)
            | C::PopTable(_)
            | C::Array(_)
            | C::Closure(..) => true,
            C::Composite(_, cards) => {
                // a composite is an expression if its last card is one and the others are not
                match cards.split_last() {
                    Some((last, rest)) => last.produces_value() && rest.iter().all(|c| !c.produces_value()),
                    None => false,
                }
            }
            C::Return(_)
            | C::Abort
            | C::SetProperty(..)
            | C::IfTrue(..)
            | C::IfFalse(..)
            | C::IfElse(..)
            | C::SetGlobal(..)
            | C::SetVar(..)
            | C::Repeat { .. }
            | C::While(..)
            | C::ForEach { .. }
            | C::Append(..)
            | C::Comment(_) => false,
        }
    }

    pub fn kind(&self) -> &'static str {
        match self {
            C::Bin(op, ..) => match op {
                BinOp::Add => "Add",
                BinOp::Sub => "Sub",
                BinOp::Mul => "Mul",
                BinOp::Div => "Div",
                BinOp::Less => "Less",
                BinOp::LessOrEq => "LessOrEq",
                BinOp::Equals => "Equals",
                BinOp::NotEquals => "NotEquals",
                BinOp::And => "And",
                BinOp::Or => "Or",
                BinOp::Xor => "Xor",
            },
            C::Not(_) => "Not",
            C::Return(_) => "Return",
            C::Nil => "ScalarNil",
            C::CreateTable => "CreateTable",
            C::Abort => "Abort",
            C::Len(_) => "Len",
            C::SetProperty(..) => "SetProperty",
            C::GetProperty(..) => "GetProperty",
            C::Int(_) => "ScalarInt",
            C::Float(_) => "ScalarFloat",
            C::Str(_) => "StringLiteral",
            C::CallNative(..) => "CallNative",
            C::IfTrue(..) => "IfTrue",
            C::IfFalse(..) => "IfFalse",
            C::IfElse(..) => "IfElse",
            C::Call(..) => "Call",
            C::Function(_) => "Function",
            C::NativeFunction(_) => "NativeFunction",
            C::SetGlobal(..) => "SetGlobalVar",
            C::SetVar(..) => "SetVar",
            C::ReadVar(_) => "ReadVar",
            C::Repeat { .. } => "Repeat",
            C::While(..) => "While",
            C::ForEach { .. } => "ForEach",
            C::Composite(..) => "CompositeCard",
            C::DynCall(..) => "DynamicCall",
            C::Get(..) => "Get",
            C::Append(..) => "AppendTable",
            C::PopTable(_) => "PopTable",
            C::Array(_) => "Array",
            C::Closure(..) => "Closure",
            C::Comment(_) => "Comment",
        }
    }

    /// children in the order of `Card::get_child` (the order `CardIndex` sub-indices use)
    pub fn children(&self) -> Vec<&C> {
        match self {
            C::Bin(_, a, c) => vec![a, c],
            C::Not(a) | C::Return(a) | C::Len(a) | C::PopTable(a) => vec![a],
            C::SetProperty(a, c, d) | C::IfElse(a, c, d) => vec![a, c, d],
            C::GetProperty(a, c) | C::IfTrue(a, c) | C::IfFalse(a, c) | C::While(a, c) | C::Get(a, c) | C::Append(a, c) => vec![a, c],
            C::CallNative(_, args) | C::Call(_, args) | C::Array(args) | C::Composite(_, args) => args.iter().collect(),
            C::SetGlobal(_, v) | C::SetVar(_, v) => vec![v],
            C::Repeat { n, body, .. } => vec![n, body],
            C::ForEach { iterable, body, .. } => vec![iterable, body],
            C::DynCall(f, args) => std::iter::once(&**f).chain(args.iter()).collect(),
            C::Closure(_, cards) => cards.iter().collect(),
            C::Nil | C::CreateTable | C::Abort | C::Int(_) | C::Float(_) | C::Str(_) | C::Function(_) | C::NativeFunction(_) | C::ReadVar(_) | C::Comment(_) => vec![],
        }
    }

    pub fn children_mut(&mut self) -> Vec<&mut C> {
        match self {
            C::Bin(_, a, c) => vec![a, c],
            C::Not(a) | C::Return(a) | C::Len(a) | C::PopTable(a) => vec![a],
            C::SetProperty(a, c, d) | C::IfElse(a, c, d) => vec![a, c, d],
            C::GetProperty(a, c) | C::IfTrue(a, c) | C::IfFalse(a, c) | C::While(a, c) | C::Get(a, c) | C::Append(a, c) => vec![a, c],
            C::CallNative(_, args) | C::Call(_, args) | C::Array(args) | C::Composite(_, args) => args.iter_mut().collect(),
            C::SetGlobal(_, v) | C::SetVar(_, v) => vec![v],
            C::Repeat { n, body, .. } => vec![n, body],
            C::ForEach { iterable, body, .. } => vec![iterable, body],
            C::DynCall(f, args) => std::iter::once(&mut **f).chain(args.iter_mut()).collect(),
            C::Closure(_, cards) => cards.iter_mut().collect(),
            C::Nil | C::CreateTable | C::Abort | C::Int(_) | C::Float(_) | C::Str(_) | C::Function(_) | C::NativeFunction(_) | C::ReadVar(_) | C::Comment(_) => vec![],
        }
    }

    pub fn size(&self) -> usize {
        1 + self.children().iter().map(|c| c.size()).sum::<usize>()
    }

    pub fn walk<'a>(&'a self, f: &mut impl FnMut(&'a C)) {
        f(self);
        for c in self.children() {
            c.walk(f);
        }
    }
}

impl Module {
    pub fn walk_cards<'a>(&'a self, f: &mut impl FnMut(&'a C)) {
        for (_, func) in self.functions.iter() {
            for c in func.cards.iter() {
                c.walk(f);
            }
        }
        for (_, m) in self.submodules.iter() {
            m.walk_cards(f);
        }
    }

    pub fn size(&self) -> usize {
        let mut n = 0;
        self.walk_cards(&mut |_| n += 1);
        n
    }

    /// every global name written by a `SetGlobal` card or read by a non-local `ReadVar`
    pub fn mentioned_names(&self) -> Vec<String> {
        let mut names = Vec::new();
        self.walk_cards(&mut |c| match c {
            C::SetGlobal(n, _) | C::ReadVar(n) | C::SetVar(n, _) => {
                let base = n.split('.').next().unwrap_or("").to_string();
                if !base.is_empty() && !names.contains(&base) {
                    names.push(base);
                }
            }
            _ => {}
        });
        names
    }
}
