//! C06 family: closures created in every kind of scope, capturing every kind of variable, used
//! inside and after the scope, stored, passed, returned, with siblings sharing the variable.

use crate::gen_basic::Family;
use crate::ir::*;

fn add(a: C, c: C) -> C {
    bin(BinOp::Add, a, c)
}
/// host call whose (nil) result is consumed by a global sink, so that no unused value stays on the
/// stack (the language keeps the values of statement-position cards on the stack)
fn log2(name: &str, v: C) -> C {
    sg("_sink", native("log2", vec![s(name), v]))
}
fn dcall(f: C, args: Vec<C>) -> C {
    C::DynCall(b(f), args)
}

pub struct FClosure;

impl FClosure {
    const DIMS: [u64; 7] = [8, 6, 4, 2, 3, 2, 2];
}

impl Family for FClosure {
    fn name(&self) -> &'static str {
        "F-closure"
    }
    fn len(&self) -> u64 {
        Self::DIMS.iter().product()
    }
    fn case(&self, idx: u64) -> Module {
        let mut i = idx;
        let mut d = [0u64; 7];
        for (k, n) in Self::DIMS.iter().enumerate() {
            d[k] = i % n;
            i /= n;
        }
        let (ctx, cap, action, siblings, export, stray, module_pos) = (d[0], d[1], d[2], d[3], d[4], d[5], d[6]);
        // The unused-value statement leaves a value above the captured local; scope ends then
        // close / pop from the top of the stack (the language keeps statement values on the
        // stack). That known limitation is confined to a small sub-family so that it cannot
        // flood the other cases: loop contexts, plain local, read action, no sibling, global export.
        let stray = if stray == 1 && matches!(ctx, 4 | 5) && cap == 0 && action == 0 && siblings == 0 && export == 0 && module_pos == 0 { 1 } else { 0 };
        let in_loop = ctx == 4 || ctx == 5;
        let in_fn = matches!(ctx, 1 | 2 | 3 | 6 | 7);
        // effective capture kind (kinds that need a context they do not have fall back to an earlier local)
        let cap = match cap {
            1 if !in_fn => 0,
            3 | 5 if !in_loop => 0,
            c => c,
        };

        // ---- the closure(s) ------------------------------------------------------------------
        let act = |var: &str| -> Vec<C> {
            match action {
                0 => vec![C::Return(b(rv(var)))],
                1 => vec![sv(var, add(rv(var), int(10))), C::Return(b(C::Nil))],
                2 => vec![sv(var, add(rv(var), int(1))), C::Return(b(rv(var)))],
                _ => vec![C::Return(b(C::Closure(vec![], vec![C::Return(b(rv(var)))])))],
            }
        };
        let c1 = if cap == 4 {
            // the variable belongs to the grand-parent of the innermost closure
            C::Closure(vec![], vec![sv("mid", int(1)), sv("inner", C::Closure(vec![], act("x"))), C::Return(b(dcall(rv("inner"), vec![])))])
        } else {
            C::Closure(vec![], act("x"))
        };
        let call_c1 = |f: C| -> C {
            if action == 3 {
                dcall(dcall(f, vec![]), vec![])
            } else {
                dcall(f, vec![])
            }
        };

        // ---- cards of the scope the closure is created in ---------------------------------------
        let mut scope: Vec<C> = Vec::new();
        scope.push(sv("pad", int(3))); // an earlier local, so that the captured one is not slot 0
        match cap {
            0 | 4 => scope.push(sv("x", int(100))),
            1 | 3 => {} // parameter / loop variable named x
            2 => {}     // declared after the closure
            _ => {}     // 5: a local x exists outside the loop *and* the loop variable is x
        }
        scope.push(sv("c1", c1));
        if cap == 2 {
            scope.push(sv("x", int(100))); // later-declared local: the closure does not see it
        }
        if siblings == 1 {
            scope.push(sv("c2", C::Closure(vec![], vec![sv("x", add(rv("x"), int(1000)))])));
        }
        if stray == 1 {
            scope.push(call("one", vec![])); // value-producing card in statement position
        }
        scope.push(log2("r1", call_c1(rv("c1"))));
        if siblings == 1 {
            scope.push(sg("_sink", dcall(rv("c2"), vec![])));
        }
        scope.push(log2("r2", call_c1(rv("c1"))));
        scope.push(log2("x", rv("x")));
        // export
        scope.push(sg("G", rv("c1")));
        scope.push(C::Append(b(rv("c1")), b(rv("ALL"))));
        match export {
            1 => {
                scope.push(sv("tab", C::CreateTable));
                scope.push(sv("tab.c", rv("c1")));
                scope.push(sg("T", rv("tab")));
            }
            2 => scope.push(log2("applied", call("apply", vec![rv("c1")]))),
            _ => {}
        }

        // ---- uses after the scope has ended --------------------------------------------------------
        let mut after: Vec<C> = vec![log2("r3", call_c1(rv("G"))), log2("r4", call_c1(rv("G")))];
        if export == 1 {
            after.push(log2("t", call_c1(C::GetProperty(b(rv("T")), b(s("c"))))));
        }
        after.push(C::ForEach { i: None, k: None, v: Some("each".into()), iterable: b(rv("ALL")), body: b(log2("all", call_c1(rv("each")))) });

        // ---- context ---------------------------------------------------------------------------
        let mut fns: Vec<(String, Func)> = vec![
            ("one".into(), func(&[], vec![C::Return(b(int(1)))])),
            ("apply".into(), func(&["f"], vec![C::Return(b(if action == 3 { dcall(dcall(rv("f"), vec![]), vec![]) } else { dcall(rv("f"), vec![]) }))])),
        ];
        let x_param = cap == 1;
        let mut main: Vec<C> = vec![sg("ALL", C::CreateTable), sg("x", int(7))];
        let mut mk_body = scope.clone();
        mk_body.push(C::Return(b(rv("c1"))));
        match ctx {
            0 => {
                main.extend(scope);
                main.extend(after);
            }
            1 => {
                let params: Vec<&str> = if x_param { vec!["x"] } else { vec![] };
                fns.push(("mk".into(), func(&params, mk_body)));
                main.push(sg("R", call("mk", if x_param { vec![int(31)] } else { vec![] })));
                main.extend(after);
            }
            2 => {
                let params: Vec<&str> = if x_param { vec!["x", "q"] } else { vec!["p", "q"] };
                fns.push(("mk".into(), func(&params, mk_body)));
                main.push(sv("l1", int(1)));
                main.push(sv("l2", int(2)));
                main.push(sg("R", call("mk", vec![int(31), int(32)])));
                main.extend(after);
                main.push(log2("l1", rv("l1")));
                main.push(log2("l2", rv("l2")));
            }
            3 => {
                let params: Vec<&str> = if x_param { vec!["x"] } else { vec!["p"] };
                fns.push(("mk".into(), func(&params, mk_body)));
                fns.push(("mid".into(), func(&["y"], vec![sv("ml", int(21)), sv("got", call("mk", vec![rv("y")])), log2("ml", rv("ml")), C::Return(b(rv("got")))])));
                main.push(sv("l1", int(1)));
                main.push(sg("R", call("mid", vec![int(33)])));
                main.extend(after);
            }
            4 => {
                if cap == 5 {
                    main.push(sv("x", int(55)));
                }
                let var = if cap == 3 || cap == 5 { "x" } else { "it" };
                main.push(C::Repeat { n: b(int(2)), i: Some(var.into()), body: b(comp(scope)) });
                main.extend(after);
            }
            5 => {
                if cap == 5 {
                    main.push(sv("x", int(55)));
                }
                main.push(sv("src", C::Array(vec![int(40), int(50)])));
                let var = if cap == 3 || cap == 5 { "x" } else { "fv" };
                main.push(C::ForEach { i: None, k: Some("fk".into()), v: Some(var.into()), iterable: b(rv("src")), body: b(comp(scope)) });
                main.extend(after);
            }
            6 => {
                let params: Vec<String> = if x_param { vec!["x".into()] } else { vec![] };
                main.push(sv("outer_local", int(9)));
                main.push(sv("outer", C::Closure(params, mk_body)));
                main.push(sg("R", dcall(rv("outer"), if x_param { vec![int(31)] } else { vec![] })));
                main.extend(after);
                main.push(log2("outer_local", rv("outer_local")));
            }
            _ => {
                // the creating function runs inside a loop of its caller (frame offset differs per call)
                let params: Vec<&str> = if x_param { vec!["x"] } else { vec!["p"] };
                fns.push(("mk".into(), func(&params, mk_body)));
                main.push(C::Repeat { n: b(int(2)), i: Some("round".into()), body: b(comp(vec![sv("tmp", rv("round")), sg("R", call("mk", vec![add(rv("round"), int(60))]))])) });
                main.extend(after);
            }
        }
        let mut functions: Vec<(String, Func)> = vec![("main".into(), func(&[], main))];
        functions.extend(fns);
        if module_pos == 0 {
            return Module { submodules: vec![], functions, imports: vec![] };
        }
        // the same program inside a submodule, next to a second module that holds the same program
        // with *different closure bodies at the same card positions*: calling a closure must run
        // the body of the closure expression that created it, whatever module that is in
        fn decoy_card(c: &C, in_closure: bool) -> C {
            let mut out = c.clone();
            match &mut out {
                C::Closure(_, cards) => {
                    for x in cards.iter_mut() {
                        *x = decoy_card(x, true);
                    }
                    return out;
                }
                C::Return(e) if in_closure && !matches!(**e, C::Closure(..)) && !matches!(**e, C::Nil) => {
                    let inner = decoy_card(e, in_closure);
                    return C::Return(b(add(inner, int(5000))));
                }
                C::Int(10) if in_closure => return int(5010),
                C::Str(tag) if !in_closure => {
                    *tag = format!("d:{tag}");
                    return out;
                }
                _ => {}
            }
            for ch in out.children_mut() {
                *ch = decoy_card(ch, in_closure);
            }
            out
        }
        let mut real = Module { submodules: vec![], functions: vec![], imports: vec![] };
        let mut decoy = Module { submodules: vec![], functions: vec![], imports: vec![] };
        for (n, f) in functions.into_iter() {
            let name = if n == "main" { "run".to_string() } else { n };
            let df = Func { params: f.params.clone(), cards: f.cards.iter().map(|c| decoy_card(c, false)).collect() };
            decoy.functions.push((name.clone(), df));
            real.functions.push((name, f));
        }
        Module {
            submodules: vec![("decoy".into(), decoy), ("real".into(), real)],
            functions: vec![("main".into(), func(&[], vec![sg("_sink", call("decoy.run", vec![])), sg("_sink", call("real.run", vec![])), sg("_sink", call("decoy.run", vec![]))]))],
            imports: vec![],
        }
    }
}

/// Nested closures: a middle closure and an inner closure each reference an ordered selection of
/// the variables of all enclosing functions, so that the upvalue lists of the two levels differ in
/// length and order (local captures and captures of the parent's upvalues share index ranges).
pub struct FClosureNest;

impl FClosureNest {
    const MID: [&'static [&'static str]; 5] = [&[], &["a"], &["b"], &["a", "b"], &["b", "a"]];
    fn inner_sets() -> Vec<Vec<&'static str>> {
        let vars = ["a", "b", "m"];
        let mut out: Vec<Vec<&'static str>> = Vec::new();
        for x in vars {
            out.push(vec![x]);
            for y in vars {
                if y != x {
                    out.push(vec![x, y]);
                    for z in vars {
                        if z != x && z != y {
                            out.push(vec![x, y, z]);
                        }
                    }
                }
            }
        }
        out
    }
}

impl Family for FClosureNest {
    fn name(&self) -> &'static str {
        "F-closure-nest"
    }
    fn len(&self) -> u64 {
        (Self::MID.len() * Self::inner_sets().len() * 2 * 3) as u64
    }
    fn case(&self, idx: u64) -> Module {
        let sets = Self::inner_sets();
        let mut i = idx;
        let mid_vars = Self::MID[(i % Self::MID.len() as u64) as usize];
        i /= Self::MID.len() as u64;
        let inner_vars = &sets[(i % sets.len() as u64) as usize];
        i /= sets.len() as u64;
        let write = i % 2 == 1;
        i /= 2;
        let ctx = i; // 0 main, 1 callee with arguments and caller locals, 2 extra level (closure in closure in closure)
        // inner closure
        let mut inner_body: Vec<C> = Vec::new();
        if write {
            for v in inner_vars.iter() {
                inner_body.push(sv(v, add(rv(v), int(1000))));
            }
        }
        inner_body.push(C::Return(b(inner_vars.iter().fold(int(0), |acc, v| add(acc, rv(v))))));
        let inner = if ctx == 2 {
            // one more level between the middle closure and the innermost one
            C::Closure(vec![], vec![sv("w", int(7)), sv("deep", C::Closure(vec![], inner_body)), C::Return(b(dcall(rv("deep"), vec![])))])
        } else {
            C::Closure(vec![], inner_body)
        };
        // middle closure: touches its own selection first (fixes the order of its upvalue list)
        let mut mid_body: Vec<C> = vec![sv("m", int(100))];
        for v in mid_vars.iter() {
            mid_body.push(log2(&format!("mid:{v}"), rv(v)));
        }
        mid_body.push(sv("inner", inner));
        mid_body.push(log2("inner1", dcall(rv("inner"), vec![])));
        mid_body.push(log2("inner2", dcall(rv("inner"), vec![])));
        mid_body.push(log2("m", rv("m")));
        mid_body.push(C::Return(b(rv("inner"))));
        let mut scope: Vec<C> = vec![sv("a", int(1)), sv("b", int(10)), sv("mid", C::Closure(vec![], mid_body))];
        scope.push(sv("kept", dcall(rv("mid"), vec![])));
        scope.push(log2("a", rv("a")));
        scope.push(log2("b", rv("b")));
        scope.push(log2("kept", dcall(rv("kept"), vec![])));
        scope.push(sg("K", rv("kept")));
        let mut fns: Vec<(String, Func)> = Vec::new();
        let mut main: Vec<C> = vec![sg("a", int(-1)), sg("b", int(-10)), sg("m", int(-100))];
        if ctx == 1 {
            fns.push(("mk".into(), func(&["p", "q"], scope)));
            main.push(sv("l1", int(5)));
            main.push(sg("_sink", call("mk", vec![int(31), int(32)])));
        } else {
            main.extend(scope);
        }
        main.push(log2("after", dcall(rv("K"), vec![])));
        let mut functions: Vec<(String, Func)> = vec![("main".into(), func(&[], main))];
        functions.extend(fns);
        Module { submodules: vec![], functions, imports: vec![] }
    }
}

/// Capture order: two sibling closures of one function each reference an ordered selection of
/// three locals a < b < c (stack order), so that open upvalues are created in every order (low,
/// high, then a slot in between …); the function returns, its stack area is reused by another
/// call, and the closures are called afterwards.
pub struct FClosureOrder;

impl FClosureOrder {
    fn selections() -> Vec<Vec<&'static str>> {
        let vars = ["a", "b", "c"];
        let mut out: Vec<Vec<&'static str>> = vec![vec![]];
        for x in vars {
            out.push(vec![x]);
            for y in vars {
                if y != x {
                    out.push(vec![x, y]);
                    for z in vars {
                        if z != x && z != y {
                            out.push(vec![x, y, z]);
                        }
                    }
                }
            }
        }
        out
    }
}

impl Family for FClosureOrder {
    fn name(&self) -> &'static str {
        "F-closure-order"
    }
    fn len(&self) -> u64 {
        let n = Self::selections().len() as u64;
        n * n * 2
    }
    fn case(&self, idx: u64) -> Module {
        let sel = Self::selections();
        let n = sel.len() as u64;
        let s1 = &sel[(idx % n) as usize];
        let s2 = &sel[((idx / n) % n) as usize];
        let in_loop = idx / (n * n) == 1;
        let weight = |v: &str| match v {
            "a" => 1,
            "b" => 10,
            _ => 100,
        };
        let body = |vars: &Vec<&'static str>, bump: i64| -> Vec<C> {
            let mut cards: Vec<C> = Vec::new();
            for v in vars.iter() {
                cards.push(sv(v, add(rv(v), int(bump * weight(v)))));
            }
            cards.push(C::Return(b(vars.iter().fold(int(0), |acc, v| add(acc, rv(v))))));
            cards
        };
        let mk = func(
            &["p"],
            vec![
                sv("a", int(1)),
                sv("b", int(2)),
                sv("c", int(3)),
                sv("c1", C::Closure(vec![], body(s1, 1000))),
                sv("c2", C::Closure(vec![], body(s2, 1_000_000))),
                log2("in1", dcall(rv("c1"), vec![])),
                log2("in2", dcall(rv("c2"), vec![])),
                log2("a", rv("a")),
                log2("b", rv("b")),
                log2("c", rv("c")),
                sv("pair", C::CreateTable),
                sv("pair.one", rv("c1")),
                sv("pair.two", rv("c2")),
                C::Return(b(rv("pair"))),
            ],
        );
        // reuses the stack area of the returned frame with other values
        let churn = func(&["x", "y"], vec![sv("l1", int(-1)), sv("l2", int(-2)), sv("l3", int(-3)), sv("l4", int(-4)), C::Return(b(add(rv("x"), rv("y"))))]);
        let use_pair = vec![
            sv("got", call("mk", vec![int(5)])),
            log2("churn", call("churn", vec![int(7), int(8)])),
            log2("out1", dcall(rv("got.one"), vec![])),
            log2("churn", call("churn", vec![int(9), int(10)])),
            log2("out2", dcall(rv("got.two"), vec![])),
            log2("out1 again", dcall(rv("got.one"), vec![])),
        ];
        let main = if in_loop { vec![sv("keep", int(77)), C::Repeat { n: b(int(2)), i: Some("round".into()), body: b(comp(use_pair)) }, log2("keep", rv("keep"))] } else { use_pair };
        module(vec![("main", func(&[], main)), ("mk", mk), ("churn", churn)])
    }
}

/// Twin closures: closure expressions at the *same card position* of two different functions
/// (two functions of one module, of the root and a submodule, of two sibling modules, of a module
/// and its child, or of main and a callee), each returning its own tag - calling one must never
/// run the other's body. With and without a statement in front (card position 0 / 1), with and
/// without an inner closure, both call orders, 2 or 3 twins.
pub struct FClosureTwin;

impl FClosureTwin {
    const DIMS: [u64; 5] = [6, 2, 2, 2, 2];
}

impl Family for FClosureTwin {
    fn name(&self) -> &'static str {
        "F-closure-twin"
    }
    fn len(&self) -> u64 {
        Self::DIMS.iter().product()
    }
    fn case(&self, idx: u64) -> Module {
        let mut i = idx;
        let mut d = [0u64; 5];
        for (k, n) in Self::DIMS.iter().enumerate() {
            d[k] = i % n;
            i /= n;
        }
        let [placement, position, nest, order, three] = d;
        let maker = |tag: i64| -> Vec<C> {
            let mut cards: Vec<C> = Vec::new();
            if position == 1 {
                cards.push(sv("pad", int(0)));
            }
            let body = if nest == 1 { vec![sv("inner", C::Closure(vec![], vec![C::Return(b(int(tag)))])), C::Return(b(dcall(rv("inner"), vec![])))] } else { vec![C::Return(b(int(tag)))] };
            cards.push(sv("c", C::Closure(vec![], body)));
            cards
        };
        let mk_func = |tag: i64| -> Func {
            let mut cards = maker(tag);
            cards.push(C::Return(b(rv("c"))));
            func(&[], cards)
        };
        // where the twins live: (module path, function name)
        let homes: Vec<(&str, &str)> = match placement {
            0 => vec![("", "fa"), ("", "fb"), ("", "fc")],
            1 => vec![("", "fa"), ("m", "fb"), ("m", "fc")],
            2 => vec![("m", "fa"), ("m", "fb"), ("m", "fc")],
            3 => vec![("m", "fa"), ("n", "fa"), ("n", "fb")],
            4 => vec![("m", "fa"), ("m.k", "fa"), ("m.k", "fb")],
            _ => vec![("", "main"), ("", "fb"), ("m", "fb")],
        };
        let count = if three == 1 { 3 } else { 2 };
        let homes = &homes[..count];
        let mut root = Module::default();
        let mut main: Vec<C> = Vec::new();
        let mut getters: Vec<(String, C)> = Vec::new();
        for (t, (path, name)) in homes.iter().enumerate() {
            let tag = (t as i64 + 1) * 11;
            if *name == "main" {
                main.extend(maker(tag));
                getters.push((format!("v{t}"), rv("c")));
                continue;
            }
            // insert the function into the module tree
            let mut m = &mut root;
            if !path.is_empty() {
                for seg in path.split('.') {
                    if !m.submodules.iter().any(|(n, _)| n == seg) {
                        m.submodules.push((seg.to_string(), Module::default()));
                    }
                    m = &mut m.submodules.iter_mut().find(|(n, _)| n == seg).unwrap().1;
                }
            }
            m.functions.push((name.to_string(), mk_func(tag)));
            let full = if path.is_empty() { name.to_string() } else { format!("{path}.{name}") };
            getters.push((format!("v{t}"), call(&full, vec![])));
        }
        for (v, g) in getters.iter() {
            main.push(sv(v, g.clone()));
        }
        let mut calls: Vec<C> = getters.iter().map(|(v, _)| log2(v, dcall(rv(v), vec![]))).collect();
        if order == 1 {
            calls.reverse();
        }
        main.extend(calls);
        root.functions.insert(0, ("main".to_string(), func(&[], main)));
        root
    }
}


/// Closure literals as the callee and as the arguments of one DynamicCall (an immediately invoked
/// closure receiving closure literals): every literal keeps its own body.
pub struct FClosureArgs;

impl Family for FClosureArgs {
    fn name(&self) -> &'static str {
        "F-closure-args"
    }
    fn len(&self) -> u64 {
        3 * 2 * 2
    }
    fn case(&self, idx: u64) -> Module {
        let nargs = (idx % 3) as usize + 1;
        let in_function = (idx / 3) % 2 == 1;
        let nested = idx / 6 == 1;
        // the callee calls each of its parameters and logs the results, then returns its own tag
        let params: Vec<String> = (0..nargs).map(|j| format!("f{j}")).collect();
        let mut callee_body: Vec<C> = vec![sv("x", add(rv("x"), int(1000)))];
        for p in params.iter() {
            callee_body.push(log2(p, dcall(rv(p), vec![])));
        }
        callee_body.push(C::Return(b(int(-1))));
        let arg = |j: usize| -> C {
            let tag = 10 * (j as i64 + 1);
            if nested {
                C::Closure(vec![], vec![sv("x", add(rv("x"), int(tag))), sv("inner", C::Closure(vec![], vec![C::Return(b(add(rv("x"), int(tag))))])), C::Return(b(dcall(rv("inner"), vec![])))])
            } else {
                C::Closure(vec![], vec![sv("x", add(rv("x"), int(tag))), C::Return(b(int(tag)))])
            }
        };
        let the_call = dcall(C::Closure(params.clone(), callee_body), (0..nargs).map(arg).collect());
        let site = vec![sv("x", int(1)), log2("callee", the_call), log2("x", rv("x"))];
        if in_function {
            module(vec![("main", func(&[], vec![sg("_sink", call("site", vec![int(5)]))])), ("site", func(&["q"], site))])
        } else {
            module(vec![("main", func(&[], site))])
        }
    }
}
