//! Supervisor / worker plumbing, evidence, known findings, replay artefacts.
//!
//! A check is a finite list of *units* (a case index of a program family, or a shard of an
//! explicit-state search). The supervisor runs ranges of units in worker sub-processes of the same
//! binary, so that a subject that hangs, aborts or overflows the native stack takes down a worker
//! and not the explorer; such a unit is re-run in trace mode to pin the exact case.

use serde::{Deserialize, Serialize};
use serde_json::{json, Value};
use std::collections::{BTreeMap, BTreeSet};
use std::io::{Read, Write};
use std::path::{Path, PathBuf};
use std::process::{Command, Stdio};
use std::sync::atomic::{AtomicBool, AtomicU64, Ordering};
use std::sync::Mutex;
use std::time::{Duration, Instant};

#[derive(Clone, Copy, Debug, PartialEq, Eq)]
pub enum Tier {
    Quick,
    Thorough,
}

impl Tier {
    pub fn parse(s: &str) -> Option<Tier> {
        match s {
            "quick" => Some(Tier::Quick),
            "thorough" => Some(Tier::Thorough),
            _ => None,
        }
    }
    pub fn name(self) -> &'static str {
        match self {
            Tier::Quick => "quick",
            Tier::Thorough => "thorough",
        }
    }
    pub fn pick<T>(self, quick: T, thorough: T) -> T {
        match self {
            Tier::Quick => quick,
            Tier::Thorough => thorough,
        }
    }
}

#[derive(Serialize, Deserialize, Clone, Debug)]
pub struct Violation {
    pub property: String,
    /// finding key: stable, whitespace-free, fine enough that a different violation of the same
    /// property has a different key
    pub key: String,
    pub what: String,
    /// everything needed to re-run exactly this case without the explorer
    pub case: Value,
}

impl Violation {
    pub fn new(property: &str, key: impl Into<String>, what: impl Into<String>, case: Value) -> Self {
        let key: String = key.into();
        let key: String = key
            .chars()
            .map(|c| if c.is_whitespace() { '_' } else { c })
            .collect();
        Violation {
            property: property.to_string(),
            key,
            what: what.into(),
            case,
        }
    }
}

pub const MAX_WITNESSES_PER_KEY: usize = 2;
pub const MAX_SAMPLES: usize = 6;

#[derive(Serialize, Deserialize, Default, Debug)]
pub struct ChunkResult {
    pub evaluations: u64,
    pub nontrivial: u64,
    pub states: u64,
    pub transitions: u64,
    pub traces: u64,
    pub outcomes: BTreeMap<String, u64>,
    pub violations: Vec<Violation>,
    pub violation_counts: BTreeMap<String, u64>,
    pub samples: Vec<Value>,
    pub counters: BTreeMap<String, u64>,
}

impl ChunkResult {
    pub fn outcome(&mut self, o: impl Into<String>) {
        *self.outcomes.entry(o.into()).or_insert(0) += 1;
    }
    pub fn count(&mut self, name: &str, n: u64) {
        *self.counters.entry(name.to_string()).or_insert(0) += n;
    }
    pub fn max_counter(&mut self, name: &str, n: u64) {
        let e = self.counters.entry(name.to_string()).or_insert(0);
        if n > *e {
            *e = n;
        }
    }
    pub fn sample(&mut self, v: impl FnOnce() -> Value) {
        if self.samples.len() < MAX_SAMPLES {
            self.samples.push(v());
        }
    }
    pub fn violation(&mut self, v: Violation) {
        let c = self.violation_counts.entry(v.key.clone()).or_insert(0);
        *c += 1;
        if (*c as usize) <= MAX_WITNESSES_PER_KEY {
            self.violations.push(v);
        }
    }
    pub fn merge(&mut self, o: ChunkResult) {
        self.evaluations += o.evaluations;
        self.nontrivial += o.nontrivial;
        self.states += o.states;
        self.transitions += o.transitions;
        self.traces += o.traces;
        for (k, v) in o.outcomes {
            *self.outcomes.entry(k).or_insert(0) += v;
        }
        for (k, v) in o.violation_counts {
            *self.violation_counts.entry(k).or_insert(0) += v;
        }
        for v in o.violations {
            let have = self.violations.iter().filter(|x| x.key == v.key).count();
            if have < MAX_WITNESSES_PER_KEY {
                self.violations.push(v);
            }
        }
        for s in o.samples {
            if self.samples.len() < MAX_SAMPLES {
                self.samples.push(s);
            }
        }
        for (k, v) in o.counters {
            if k.starts_with("max_") {
                let e = self.counters.entry(k).or_insert(0);
                if v > *e {
                    *e = v;
                }
            } else {
                *self.counters.entry(k).or_insert(0) += v;
            }
        }
    }
}

#[derive(Clone, Debug, Default)]
pub struct CheckInfo {
    /// how cases are enumerated and what makes one non-trivial
    pub rule: String,
    /// the bound this tier completes when not capped
    pub bound: String,
    /// true if an un-capped run enumerates the stated finite space completely
    pub exhaustive: bool,
    pub assumptions: Vec<String>,
    pub explanation: String,
}

pub trait Check: Sync {
    fn id(&self) -> &'static str;
    fn info(&self, tier: Tier) -> CheckInfo;
    /// number of work units of this tier
    fn units(&self, tier: Tier) -> u64;
    /// how many units go into one worker invocation
    fn chunk(&self, tier: Tier) -> u64 {
        let _ = tier;
        1
    }
    /// seconds a single *unit* may take before it is declared hanging
    fn unit_timeout_s(&self, tier: Tier) -> u64 {
        let _ = tier;
        120
    }
    fn run_unit(&self, tier: Tier, unit: u64, out: &mut ChunkResult);
    /// re-run one recorded case; `Some` if it (still) violates
    fn replay(&self, case: &Value) -> Option<Violation>;
    /// violation to report when a worker died / hung on this case (`last_case` is the last case
    /// the worker announced through `trace_case`)
    fn crash_violation(&self, tier: Tier, unit: u64, how: &str, last_case: Option<Value>) -> Violation {
        let case = last_case.unwrap_or_else(|| json!({"unit": unit, "tier": tier.name()}));
        Violation::new(
            self.id(),
            format!("{}:{}", how, fnv(&case.to_string())),
            format!("worker {} while executing this case", how),
            case,
        )
    }
}

static TRACE: AtomicBool = AtomicBool::new(false);
static SKIP: AtomicU64 = AtomicU64::new(0);

/// number of leading cases of the unit a resumed worker has to skip (they were executed by an
/// earlier worker that died on case `skip - 1`)
pub fn skip_cases() -> u64 {
    SKIP.load(Ordering::Relaxed)
}

/// like `trace_case`, for units that are plain lists of cases: `k` is the position in the unit,
/// which lets the supervisor resume behind a case that killed the worker
#[inline]
pub fn trace_case_at(k: u64, f: impl FnOnce() -> Value) {
    if TRACE.load(Ordering::Relaxed) {
        let v = f();
        let mut e = std::io::stderr().lock();
        let _ = writeln!(e, "CVXCASE @{} {}", k, v);
        let _ = e.flush();
    }
}

pub fn trace_enabled() -> bool {
    TRACE.load(Ordering::Relaxed)
}

/// Announce the case about to be executed (only in trace mode, used to pin crashes and hangs).
#[inline]
pub fn trace_case(f: impl FnOnce() -> Value) {
    if TRACE.load(Ordering::Relaxed) {
        let v = f();
        let mut e = std::io::stderr().lock();
        let _ = writeln!(e, "CVXCASE {}", v);
        let _ = e.flush();
    }
}

pub fn silence_panics() {
    if std::env::var("CVX_LOUD").is_ok() {
        return;
    }
    std::panic::set_hook(Box::new(|_| {}));
}

pub fn panic_message(p: &Box<dyn std::any::Any + Send>) -> String {
    if let Some(s) = p.downcast_ref::<&str>() {
        s.to_string()
    } else if let Some(s) = p.downcast_ref::<String>() {
        s.clone()
    } else {
        "<non-string panic>".to_string()
    }
}

// ------------------------------------------------------------------------------------------------
// known findings
// ------------------------------------------------------------------------------------------------

#[derive(Debug, Clone)]
pub struct KnownFinding {
    pub property: String,
    pub key: String,
    pub text: String,
}

pub fn load_known_findings(path: &Path) -> Vec<KnownFinding> {
    let mut res = Vec::new();
    let Ok(s) = std::fs::read_to_string(path) else {
        return res;
    };
    for line in s.lines() {
        let line = line.trim();
        let Some(rest) = line.strip_prefix("open:") else {
            continue; // `fixed:` lines and comments suppress nothing
        };
        let mut property = None;
        let mut key = None;
        let mut text = Vec::new();
        for tok in rest.split_whitespace() {
            if let Some(p) = tok.strip_prefix("property=") {
                if property.is_none() {
                    property = Some(p.to_string());
                    continue;
                }
            }
            if let Some(k) = tok.strip_prefix("key=") {
                if key.is_none() {
                    key = Some(k.to_string());
                    continue;
                }
            }
            text.push(tok);
        }
        if let (Some(property), Some(key)) = (property, key) {
            res.push(KnownFinding {
                property,
                key,
                text: text.join(" "),
            });
        }
    }
    res
}

// ------------------------------------------------------------------------------------------------
// worker entry
// ------------------------------------------------------------------------------------------------

pub fn worker_main(check: &dyn Check, tier: Tier, lo: u64, hi: u64) -> i32 {
    if std::env::var("CVX_TRACE").map(|v| v == "1").unwrap_or(false) {
        TRACE.store(true, Ordering::Relaxed);
    }
    if let Some(k) = std::env::var("CVX_SKIP").ok().and_then(|v| v.parse::<u64>().ok()) {
        SKIP.store(k, Ordering::Relaxed);
    }
    silence_panics();
    let mut out = ChunkResult::default();
    for u in lo..hi {
        check.run_unit(tier, u, &mut out);
    }
    let s = serde_json::to_string(&out).expect("serialize chunk result");
    let mut o = std::io::stdout().lock();
    let _ = writeln!(o, "CVXRESULT {}", s);
    let _ = o.flush();
    0
}

enum WorkerOutcome {
    Ok(ChunkResult),
    Died(String, Option<(Option<u64>, Value)>),
    Hung(Option<(Option<u64>, Value)>),
}

/// the last case the worker announced: (position in the unit if known, case)
fn last_case_of(stderr: &[u8]) -> Option<(Option<u64>, Value)> {
    let s = String::from_utf8_lossy(stderr);
    let line = s.lines().rev().find_map(|l| l.strip_prefix("CVXCASE "))?;
    if let Some(rest) = line.strip_prefix('@') {
        let (k, j) = rest.split_once(' ')?;
        return Some((k.parse().ok(), parse_json::<Value>(j).ok()?));
    }
    Some((None, parse_json::<Value>(line).ok()?))
}

/// CPU time (user + system, all threads) a child process has consumed so far. The watchdogs count
/// this clock, not wall time: a subject that really hangs burns CPU, a worker that is merely starved
/// on a busy machine does not, so the verdict "hang" does not depend on the machine's load. Wall
/// time is only a far-away backstop (20x).
fn child_cpu(pid: u32) -> Option<Duration> {
    let s = std::fs::read_to_string(format!("/proc/{pid}/stat")).ok()?;
    let rest = &s[s.rfind(')')? + 1..];
    let f: Vec<&str> = rest.split_whitespace().collect();
    // after the command name: state is f[0], utime is field 14 of the line = f[11], stime f[12]
    let ut: u64 = f.get(11)?.parse().ok()?;
    let st: u64 = f.get(12)?.parse().ok()?;
    Some(Duration::from_millis((ut + st) * 10))
}

/// CPU time this process has consumed (10 ms granularity); the clock of every in-worker time limit
/// that can influence a verdict or a finding key (wall time would make them depend on machine load)
pub fn self_cpu() -> Duration {
    child_cpu(std::process::id()).unwrap_or_default()
}

fn watchdog_expired(pid: u32, start: Instant, timeout: Duration) -> bool {
    let wall = start.elapsed();
    if wall <= timeout {
        return false;
    }
    if wall > timeout * 20 {
        return true;
    }
    match child_cpu(pid) {
        Some(cpu) => cpu > timeout,
        None => true,
    }
}

fn run_worker(id: &str, tier: Tier, lo: u64, hi: u64, timeout: Duration, trace: bool, skip: u64) -> WorkerOutcome {
    let exe = std::env::current_exe().expect("current exe");
    let mut cmd = Command::new(exe);
    cmd.arg("worker")
        .arg(id)
        .arg(tier.name())
        .arg(lo.to_string())
        .arg(hi.to_string())
        .stdin(Stdio::null())
        .stdout(Stdio::piped())
        .stderr(Stdio::piped());
    if trace {
        cmd.env("CVX_TRACE", "1");
    } else {
        cmd.env_remove("CVX_TRACE");
    }
    if skip > 0 {
        cmd.env("CVX_SKIP", skip.to_string());
    } else {
        cmd.env_remove("CVX_SKIP");
    }
    let mut child = match cmd.spawn() {
        Ok(c) => c,
        Err(e) => machinery_error(&format!("cannot start worker: {e}")),
    };
    let mut stdout = child.stdout.take().unwrap();
    let mut stderr = child.stderr.take().unwrap();
    let t_out = std::thread::spawn(move || {
        let mut buf = Vec::new();
        let _ = stdout.read_to_end(&mut buf);
        buf
    });
    let t_err = std::thread::spawn(move || {
        // keep only the tail: trace mode can be very chatty
        let mut keep: Vec<u8> = Vec::new();
        let mut buf = [0u8; 65536];
        loop {
            match stderr.read(&mut buf) {
                Ok(0) | Err(_) => break,
                Ok(n) => {
                    keep.extend_from_slice(&buf[..n]);
                    if keep.len() > 4 << 20 {
                        let cut = keep.len() - (1 << 20);
                        keep.drain(..cut);
                    }
                }
            }
        }
        keep
    });
    let start = Instant::now();
    let status = loop {
        match child.try_wait() {
            Ok(Some(st)) => break Some(st),
            Ok(None) => {
                if watchdog_expired(child.id(), start, timeout) {
                    let _ = child.kill();
                    let _ = child.wait();
                    break None;
                }
                std::thread::sleep(Duration::from_millis(5));
            }
            Err(e) => machinery_error(&format!("wait on worker failed: {e}")),
        }
    };
    let out = t_out.join().unwrap_or_default();
    let err = t_err.join().unwrap_or_default();
    match status {
        None => WorkerOutcome::Hung(last_case_of(&err)),
        Some(st) => {
            let text = String::from_utf8_lossy(&out);
            if st.success() {
                if let Some(line) = text.lines().rev().find_map(|l| l.strip_prefix("CVXRESULT ")) {
                    match parse_json::<ChunkResult>(line) {
                        Ok(r) => return WorkerOutcome::Ok(r),
                        Err(e) => machinery_error(&format!("bad worker result: {e}")),
                    }
                }
                machinery_error("worker exited 0 without a result line");
            }
            // a worker that stopped with a machinery error: propagate, never a verdict
            let err_text = String::from_utf8_lossy(&err);
            if st.code() == Some(2) {
                if let Some(line) = err_text.lines().rev().find(|l| l.starts_with("MACHINERY-ERROR")) {
                    machinery_error(line.trim_start_matches("MACHINERY-ERROR: "));
                }
            }
            let how = {
                #[cfg(unix)]
                {
                    use std::os::unix::process::ExitStatusExt;
                    match st.signal() {
                        Some(sig) => format!("signal{}", sig),
                        None => format!("exit{}", st.code().unwrap_or(-1)),
                    }
                }
                #[cfg(not(unix))]
                {
                    format!("exit{}", st.code().unwrap_or(-1))
                }
            };
            WorkerOutcome::Died(how, last_case_of(&err))
        }
    }
}

/// JSON produced by this harness may nest as deeply as the programs it describes (a 300-term sum is
/// 300 levels): parsed without serde_json's recursion limit, on a thread with a large stack
pub fn parse_json<T: serde::de::DeserializeOwned + Send + 'static>(text: &str) -> Result<T, String> {
    let text = text.to_string();
    std::thread::Builder::new()
        .stack_size(1 << 30)
        .spawn(move || {
            let mut de = serde_json::Deserializer::from_str(&text);
            de.disable_recursion_limit();
            let r = T::deserialize(&mut de).map_err(|e| e.to_string());
            r
        })
        .map_err(|e| e.to_string())?
        .join()
        .map_err(|_| "the JSON parser thread panicked".to_string())?
}

pub fn machinery_error(msg: &str) -> ! {
    eprintln!("MACHINERY-ERROR: {msg}");
    std::process::exit(2);
}

pub fn verif_root() -> PathBuf {
    if let Ok(p) = std::env::var("CVX_ROOT") {
        return PathBuf::from(p);
    }
    PathBuf::from("/verif")
}

fn fnv(s: &str) -> String {
    let mut h: u64 = 0xcbf29ce484222325;
    for b in s.bytes() {
        h ^= b as u64;
        h = h.wrapping_mul(0x100000001b3);
    }
    format!("{:016x}", h)
}

// ------------------------------------------------------------------------------------------------
// supervisor
// ------------------------------------------------------------------------------------------------

pub fn supervise(check: &dyn Check, tier: Tier) -> i32 {
    silence_panics();
    let started = Instant::now();
    let id = check.id();
    let info = check.info(tier);
    let seed: i64 = std::env::var("VERIF_SEED")
        .ok()
        .and_then(|s| s.parse().ok())
        .unwrap_or(0);
    let deadline_s: u64 = std::env::var("CVX_DEADLINE_S")
        .ok()
        .and_then(|s| s.parse().ok())
        .unwrap_or(tier.pick(45, 1500));
    let jobs: usize = std::env::var("CVX_JOBS")
        .ok()
        .and_then(|s| s.parse().ok())
        .unwrap_or_else(|| std::thread::available_parallelism().map(|n| n.get()).unwrap_or(8));
    let units = check.units(tier);
    let chunk = check.chunk(tier).max(1);
    let nchunks = units.div_ceil(chunk);
    let next = AtomicU64::new(0);
    let stride = {
        // nearest value to nchunks / golden ratio that is coprime to nchunks
        fn gcd(a: u64, b: u64) -> u64 {
            if b == 0 { a } else { gcd(b, a % b) }
        }
        let mut k = ((nchunks as f64) * 0.6180339887) as u64;
        k = k.max(1);
        while nchunks > 1 && gcd(k, nchunks) != 1 {
            k += 1;
        }
        k
    };
    let total = Mutex::new(ChunkResult::default());
    let units_done = AtomicU64::new(0);
    let capped = AtomicBool::new(false);
    let unit_timeout = Duration::from_secs(check.unit_timeout_s(tier));

    std::thread::scope(|s| {
        for _ in 0..jobs.min(nchunks.max(1) as usize) {
            s.spawn(|| loop {
                if started.elapsed().as_secs() >= deadline_s {
                    if next.load(Ordering::SeqCst) < nchunks {
                        capped.store(true, Ordering::SeqCst);
                    }
                    break;
                }
                let c = next.fetch_add(1, Ordering::SeqCst);
                if c >= nchunks {
                    break;
                }
                // chunks are visited in a fixed stride order (a bijection on 0..nchunks), so that a
                // run that is cut short by the deadline has looked into every family instead of
                // only the leading ones
                let c = (c as u128 * stride as u128 % nchunks as u128) as u64;
                let lo = c * chunk;
                let hi = ((c + 1) * chunk).min(units);
                let timeout = unit_timeout * (hi - lo).min(8) as u32;
                match run_worker(id, tier, lo, hi, timeout, false, 0) {
                    WorkerOutcome::Ok(r) => {
                        total.lock().unwrap().merge(r);
                        units_done.fetch_add(hi - lo, Ordering::SeqCst);
                    }
                    _ => {
                        // pin the failing case(s): one unit per process, in trace mode; a unit that
                        // is a plain list of cases is resumed behind the case that killed the worker
                        for u in lo..hi {
                            let mut skip = 0u64;
                            let mut crashes = 0;
                            loop {
                                match run_worker(id, tier, u, u + 1, unit_timeout, true, skip) {
                                    WorkerOutcome::Ok(r) => {
                                        total.lock().unwrap().merge(r);
                                        break;
                                    }
                                    other => {
                                        let (how, last) = match other {
                                            WorkerOutcome::Died(how, last) => (format!("crash-{how}"), last),
                                            WorkerOutcome::Hung(last) => ("hang".to_string(), last),
                                            WorkerOutcome::Ok(_) => unreachable!(),
                                        };
                                        let pos = last.as_ref().and_then(|l| l.0);
                                        let v = check.crash_violation(tier, u, &how, last.map(|l| l.1));
                                        {
                                            let mut t = total.lock().unwrap();
                                            t.evaluations += 1;
                                            t.outcome(format!("worker-{how}"));
                                            t.violation(v);
                                        }
                                        crashes += 1;
                                        match pos {
                                            Some(k) if crashes < 200 => skip = k + 1,
                                            _ => {
                                                total.lock().unwrap().count("units_abandoned_after_crash", 1);
                                                break;
                                            }
                                        }
                                    }
                                }
                            }
                            units_done.fetch_add(1, Ordering::SeqCst);
                        }
                    }
                }
            });
        }
    });

    let mut total = total.into_inner().unwrap();
    let capped = capped.load(Ordering::SeqCst)
        || total.counters.get("time_cap_hit").copied().unwrap_or(0) > 0
        || total.counters.get("state_cap_hit").copied().unwrap_or(0) > 0;
    let units_done = units_done.load(Ordering::SeqCst);

    // classify violations
    let known = load_known_findings(&verif_root().join("KNOWN_FINDINGS.txt"));
    let mut exit = 0;
    let mut reported_known = BTreeSet::new();
    let mut new_keys = BTreeSet::new();
    let mut unconfirmed: Vec<String> = Vec::new();
    total.violations.sort_by(|a, b| a.key.cmp(&b.key));
    let replay_dir = verif_root().join("replays").join(id);
    for v in total.violations.iter() {
        if let Some(k) = known.iter().find(|k| k.property == v.property && k.key == v.key) {
            if reported_known.insert(v.key.clone()) {
                println!("KNOWN-FINDING: property={} key={} {}", v.property, k.key, k.text);
            }
            continue;
        }
        if !new_keys.insert(v.key.clone()) {
            continue;
        }
        // determinism: the recorded case must reproduce, twice (in sub-processes: the case may
        // hang or crash the process that executes it)
        let r1 = replay_subprocess(id, &v.case);
        let r2 = replay_subprocess(id, &v.case);
        let violates = |r: &str| r.starts_with("key ") || r.starts_with("hang") || r.starts_with("died");
        let exact = r1 == r2 && (r1 == format!("key {}", v.key) || r1.starts_with("hang") || r1.starts_with("died"));
        let mut note = String::new();
        if !exact {
            if violates(&r1) && violates(&r2) {
                // the case violates on every execution, but not with the same symptom (typical for
                // memory corruption in the subject): still a verdict, reported with the note
                note = format!(" [symptom differs between executions: {r1:?} / {r2:?}]");
            } else {
                unconfirmed.push(format!("{} ({r1:?} / {r2:?})", v.key));
                continue;
            }
        }
        let _ = std::fs::create_dir_all(&replay_dir);
        let path = replay_dir.join(format!("{}.json", fnv(&v.key)));
        let body = json!({
            "property": v.property, "check": id, "tier": tier.name(), "key": v.key,
            "what": v.what, "case": v.case,
            "occurrences": total.violation_counts.get(&v.key).copied().unwrap_or(1),
        });
        if std::fs::write(&path, serde_json::to_string_pretty(&body).unwrap()).is_err() {
            machinery_error("cannot write replay file");
        }
        println!("VIOLATION property={} replay={}", v.property, path.display());
        println!("  key={} :: {}{}", v.key, v.what, note);
        exit = 1;
    }

    // evidence
    let exhaustive = info.exhaustive && !capped && units_done == units;
    let mut coverage = json!({
        "states": total.states.max(1),
        "transitions": total.transitions.max(1),
        "traces_validated_against_impl": total.traces,
        "evaluations": total.evaluations,
        "distinct_nontrivial": total.nontrivial,
        "rule": info.rule,
        "samples": if total.samples.is_empty() { vec![json!("<no sample recorded>")] } else { total.samples.clone() },
        "exhaustive": exhaustive,
        "bound_completed": if capped { format!("CAPPED by the {deadline_s}s deadline after {units_done} of {units} units (visited in stride order across all families); intended bound: {}", info.bound) } else { info.bound.clone() },
        "units_total": units,
        "units_done": units_done,
        "capped": capped,
        "distinct_outcomes": total.outcomes.len(),
        "outcomes": total.outcomes,
        "counters": total.counters,
        "violation_keys": total.violation_counts,
        "known_findings_matched": reported_known.iter().collect::<Vec<_>>(),
        "explanation": info.explanation,
    });
    if total.states == 0 {
        coverage["states_note"] = json!("states = distinct cases (program families have no separate state notion)");
    }
    let ev = json!({
        "property_id": id,
        "tier": tier.name(),
        "seed": seed,
        "level": "model_checking",
        "coverage": coverage,
        "assumptions": info.assumptions,
        "wall_s": started.elapsed().as_secs_f64(),
        "violations": new_keys.len(),
    });
    let evdir = verif_root().join("evidence");
    let _ = std::fs::create_dir_all(&evdir);
    if std::fs::write(evdir.join(format!("{id}.json")), serde_json::to_string_pretty(&ev).unwrap()).is_err() {
        machinery_error("cannot write evidence file");
    }
    if !unconfirmed.is_empty() {
        eprintln!(
            "MACHINERY-ERROR: {} violation(s) seen by a worker did not reproduce in replay and are not reported as verdicts: {:?}",
            unconfirmed.len(),
            unconfirmed
        );
        if exit == 0 {
            exit = 2;
        }
    }
    println!(
        "{} {}: units {}/{} evaluations {} states {} transitions {} nontrivial {} outcomes {} known {} new {} capped {} wall {:.1}s",
        id,
        tier.name(),
        units_done,
        units,
        ev["coverage"]["evaluations"],
        ev["coverage"]["states"],
        ev["coverage"]["transitions"],
        ev["coverage"]["distinct_nontrivial"],
        ev["coverage"]["distinct_outcomes"],
        reported_known.len(),
        new_keys.len(),
        capped,
        started.elapsed().as_secs_f64()
    );
    exit
}

/// Replays one case in a sub-process of this binary (`cvx replay-case <id>`, case on stdin).
/// Returns "key <k>", "none", "hang" or "died <how>".
pub fn replay_subprocess(id: &str, case: &Value) -> String {
    let exe = std::env::current_exe().expect("current exe");
    let mut child = match Command::new(exe)
        .arg("replay-case")
        .arg(id)
        .stdin(Stdio::piped())
        .stdout(Stdio::piped())
        .stderr(Stdio::null())
        .spawn()
    {
        Ok(c) => c,
        Err(e) => machinery_error(&format!("cannot start replay process: {e}")),
    };
    {
        let mut stdin = child.stdin.take().unwrap();
        let _ = stdin.write_all(case.to_string().as_bytes());
    }
    let mut stdout = child.stdout.take().unwrap();
    let t_out = std::thread::spawn(move || {
        let mut buf = Vec::new();
        let _ = stdout.read_to_end(&mut buf);
        buf
    });
    let start = Instant::now();
    let status = loop {
        match child.try_wait() {
            Ok(Some(st)) => break Some(st),
            Ok(None) => {
                if watchdog_expired(child.id(), start, Duration::from_secs(20)) {
                    let _ = child.kill();
                    let _ = child.wait();
                    break None;
                }
                std::thread::sleep(Duration::from_millis(5));
            }
            Err(e) => machinery_error(&format!("wait on replay process failed: {e}")),
        }
    };
    let out = t_out.join().unwrap_or_default();
    let text = String::from_utf8_lossy(&out).to_string();
    match status {
        None => "hang".to_string(),
        Some(st) if st.success() => text
            .lines()
            .rev()
            .find_map(|l| l.strip_prefix("CVXREPLAY ").map(|s| s.to_string()))
            .unwrap_or_else(|| "died no-result".to_string()),
        Some(st) => format!("died {:?}", st.code()),
    }
}

/// entry point of `cvx replay-case <id>`
pub fn replay_case_main(check: &dyn Check) -> i32 {
    silence_panics();
    let mut s = String::new();
    let _ = std::io::stdin().read_to_string(&mut s);
    let case: Value = match parse_json::<Value>(&s) {
        Ok(v) => v,
        Err(e) => machinery_error(&format!("bad case: {e}")),
    };
    match check.replay(&case) {
        Some(v) => println!("CVXREPLAY key {}", v.key),
        None => println!("CVXREPLAY none"),
    }
    0
}

pub fn replay_file(check: &dyn Check, path: &Path) -> i32 {
    let s = match std::fs::read_to_string(path) {
        Ok(s) => s,
        Err(e) => machinery_error(&format!("cannot read {}: {e}", path.display())),
    };
    let v: Value = match parse_json::<Value>(&s) {
        Ok(v) => v,
        Err(e) => machinery_error(&format!("bad replay file: {e}")),
    };
    silence_panics();
    match check.replay(&v["case"]) {
        Some(v) => {
            println!("REPRODUCED property={} key={} :: {}", v.property, v.key, v.what);
            println!("{}", serde_json::to_string_pretty(&v.case).unwrap());
            1
        }
        None => {
            println!("not reproduced");
            0
        }
    }
}
