pub mod engine;
pub mod hist;
