pub mod engine;
pub mod gen_basic;
pub mod gen_more;
pub mod hist;
pub mod ir;
pub mod refsem;
pub mod region;
pub mod shrink;
