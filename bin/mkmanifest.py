#!/usr/bin/env python3
"""Regenerates /verif/MANIFEST.json from the table below (kept next to the checks so the two stay in step)."""
import json, subprocess

ALL = ["C%02d" % i for i in range(1, 20)]

# id -> (technique, level text, level note, design ref)
CHECKS = {
 "C17": ("explicit-state BFS over run/clear histories on one real VM against fresh-VM outcomes + straight-line repetition",
         "12 programs (Ok, allocating, collecting, Timeout, OutOfMemory with live data, both stack overflows, native error in a callee, leftover globals, open upvalue at the error, stray stack values) x every history of run/clear to depth 4 (thorough 6): a run on a cleared VM equals the run on a new VM in result, globals, host log, instructions, accounted memory and object count; after clear the counters, stack heights, globals, objects and open upvalues equal a new VM's; balanced programs may follow each other without clear; 300 (600) repetitions of every program.",
         "One fixed VM configuration (64 KiB, 30000 instructions).", "DESIGN.md §4 C17"),
 "C03": ("exhaustive budget sweep (every N in a range + the values around each program's exact need) over a family of looping / callback-heavy programs, instructions counted by the dispatch hook",
         "38 programs (endless loops and recursion, native->script->native nesting to depth 3 through sort/min/max key functions, map/filter callbacks, host re-entry incl. recursion through the host, a host function swallowing the callback's error) x every budget 1..300 (thorough 2000) and needed-2..needed+3: dispatch count over all nesting levels <= N, insufficient budget => Timeout, sufficient budget => identical to the unbounded run.",
         "Timeout inside a native's callback may surface wrapped as TaskFailure(native: Timeout).", "DESIGN.md §4 C03"),
 "C05": ("limit sweep (which allocation fails is decided by the limit) x program family, shadow ledger on every allocator event via hooks, independent reachability traversal after collections, peak-based OOM discipline",
         "22 programs with rooted live data x ~160 limits (thorough ~560): at every alloc/dealloc/failed-alloc event the counter equals the sum of outstanding charges and stays under the limit, failed allocations charge nothing, releases use the allocation's layout, clear returns to zero, drop leaves nothing outstanding; object list vs. independently computed reachable set after collections; every limit >= the measured peak of (live after collection + request) must not give OutOfMemory; churn with tiny live data completes under every large limit.",
         "Memory of key vectors / upvalue vectors is taken from the global allocator and is outside 'accounted'; programs bind fresh objects to a global before using them as operands of allocating cards (C02's open findings).", "DESIGN.md §4 C05"),
 "C11": ("bounded-exhaustive round trips: module families x {json,yaml}, compiled programs and containers with every entry count 0..64 (thorough 400) x {json,cbor,bincode}, owned values",
         "Source modules read back compile to byte-identical program images; compiled programs read back are field-wise equal and run identically (incl. error traces); HandleTable / CaoHashMap with every count survive each format and remain usable under every follow-up history of depth 2; 165 owned values survive OwnedValue + 3 formats + a second VM with order preserved.",
         "NaN literals excluded for source round trips, infinities for JSON only (YAML must carry them).", "DESIGN.md §4 C11"),
 "C18": ("finite product of typed host functions x supplied value kinds x call paths x call depths on the real Vm + bounded-exhaustive re-entry family against the reference interpreter with host-side stack-height checks",
         "4179 typed-parameter cases (8 rotations of 8 parameter types over arities 0..4, 6 supplied kinds, CallNative / native value / host run_function, depth 0..2) against the conversion table; reserved names; 972 re-entry programs (5 callee kinds x 6 callee bodies x argument counts x call sites x result uses) with value-stack height and call depth compared inside the host function around every successful run_function.",
         "Coercing conversions may yield the coercion or a rejection.", "DESIGN.md §4 C18"),
 "C15": ("bounded-exhaustive error injection at every value-producing card position of base programs, locations compared with the reference interpreter's; constructive resource-error cases",
         "5 base programs (call depth 0-2, nested modules, closures and dynamic calls, loops, table cards and natives) x every value-producing card position x 5 injected failing expressions: trace[0] must be the raising card, trace[1..] the call cards of the active chain with namespaces (plus at most the program entry); the same positions x 4 cards the compiler must reject: CompilationError.loc must be that card; 39 resource-exhaustion cases (call depth, value stack, memory, budget) whose raising card is known by construction.",
         "Errors inside library callbacks / host re-entry excluded (those frames have no call card).", "DESIGN.md §4 C15"),
 "C07": ("explicit-state BFS over operation histories on two aliased tables of a real Vm (host API) + bounded-exhaustive enumeration of table-card sequences (script) against an insertion-ordered Vec model / the reference interpreter",
         "Host seam: every history of insert/append/pop/remove up to the stated depth over keys {0,1,2,7,1.5,\"a\" via two distinct string objects,\"b\",nil} and values {1,2,table references incl. self}, from empty and pre-filled starts (one chosen with the real hasher so that the first rehash wraps probe chains); get/contains through every equal key form and &str, len, keys(), iter(), nth_key, bucket count compared in every distinct concrete state. Script seam: every sequence of SetProperty/AppendTable/PopTable/dotted SetVar cards up to length 2 (thorough 3) on two mutually aliased tables in main / callee / closure, followed by a full read-out, against the reference interpreter.",
         "Bounded depth / length; NaN and signed-zero keys excluded per the statement.", "DESIGN.md §4 C07"),
 "C09": ("bounded-exhaustive enumeration of (table, library function, callback, call path) programs against direct specification functions",
         "Every table with <= 3 (thorough 4) entries over {nil,0,1,1.0,2,\"a\",\"bb\",{}} x 3 key styles x 10 library functions x 7 callback / key-function / non-table-input variants x 3 call paths; result, unchanged input and the callback invocation log must equal the specification implemented in the reference semantics.",
         "min/max/sorted are only judged where the compared results are pairwise comparable under the language's order.", "DESIGN.md §4 C09"),
 "C16": ("explicit-state BFS over edit sequences on the real Module against a labelled-tree model",
         "For each of 37 card kinds a module with the kind at top level, under a list parent and under a fixed-arity parent; every insert/remove/replace at every valid and invalid index and every ordered pair for swap (depth 1 with swap, depth 2 without; thorough depth 2 with swap); after each edit the serialised module equals the tree model, failed edits are byte-identical no-ops, and in every state walk / child count / child enumeration / child lookup agree for every card.",
         "Placeholder left by removing from a fixed slot is implementation-defined (any leaf).", "DESIGN.md §4 C16"),
 "C19": ("exhaustive relation check (all pairs, all triples) over a finite universe of real runtime values, host seam and script seam",
         "Reflexivity, symmetry, transitivity of ==, equal-implies-equal-hash (and table-key lookup), equality vs. order coherence, asymmetry, agreement of == and the coercing order with the reference semantics on exactly representable numbers, truthiness, termination; 96 equal-content tables with different bucket layouts; every constructible pair also through compiled Equals/NotEquals/Less/LessOrEq cards.",
         "45-element universe; NaN, signed zero, f64-rounding-boundary pairs and cyclic tables are documented exceptions.", "DESIGN.md §4 C19"),
 "C06": ("bounded-exhaustive enumeration of closure program families run on the real compiler+VM against a reference interpreter with by-reference capture",
         "F-closure (8 creation contexts incl. callees at non-zero frame offsets, loop iterations, closures in closures, callees invoked from loops x 6 kinds of captured variable x read/write/read-write/inner-closure bodies x sibling sharing x export through global/table/argument x module placement next to a decoy module with different closure bodies at the same card positions) and F-closure-nest (middle and inner closures referencing every ordered selection of the enclosing variables, 3 contexts); every closure is called inside its scope, after the scope ended and once per loop iteration afterwards; host-call log and globals must equal the reference.",
         "Closure nesting <= 3 levels; unused statement values above a captured loop local are an open finding (dedicated sub-family).", "DESIGN.md §4 C06"),
 "C08": ("bounded-exhaustive enumeration of module trees x call sites x names x import lists against an independent resolver + reference run",
         "F-resolve: 128 module trees reusing the names f/g across root, a, a.b, b x call site in root/a/a.b x 10 name forms x static/dynamic call x 20 import lists (function and module-prefix imports, super. up to three levels, missing dot, duplicates, ambiguous pairs, library imports); F-badnames: invalid/reserved/duplicate function and module names and user functions named like library ones at three levels; F-call: arity 0-3 binding, caller-locals canary, return positions, recursion. The compile verdict (must compile / must be rejected) and, if it compiles, which body ran (read from the host-call log) must match the independent resolver.",
         "Tree depth <= 2, two names per module; a must-be-error module may fail with any error variant; trees with merely odd imports are only required not to crash.", "DESIGN.md §4 C08"),
 "C10": ("bounded-exhaustive enumeration of compiled programs, each decoded completely by an independent bytecode verifier (own opcode table cross-checked through the hook)",
         "Every program that compiles from the C01, C04 (compile half, not restricted to well-scoped input), C06 and C08 families is checked over the whole artefact: decode to the end, final Exit, jump operands and all labels on instruction starts, string operands complete UTF-8 in data, function pointer handles/arity, closure handles unique and labelled, local / for-each / upvalue / global index ranges, ids<->names bijection, trace keys and coverage, disassembler boundaries.",
         "The verifier checks structure, not behaviour; programs the compiler rejects are skipped.", "DESIGN.md §4 C10"),
 "C01": ("bounded-exhaustive enumeration of program families (index->program bijections) run on the real compiler+VM against an independent reference interpreter",
         "Every program of the families F-expr (all depth-1 expressions over a 16-leaf operand alphabet, depth 2 over one representative per distinct result), F-stmt (15 contexts x ordered pairs, thorough: triples, of a ~65-statement alphabet, epilogue logging every visible variable), F-nest, F-call, F-limits and the dedicated inline-Array family is compiled and run for real; result kind, globals by name and the host-call log with deep-converted arguments must equal the outcome of a tree-walking reference interpreter with named variables. Failures are delta-debugged to a canonical minimal program which is the finding key.",
         "Program shapes bounded by the families; behaviour the sources leave undefined (integer overflow, NaN, out-of-range Get, arity mismatches, reads of never-assigned globals after another assignment) is executed but not compared; open findings listed in KNOWN_FINDINGS.txt (inline Array operands, value-producing statements in loops).", "DESIGN.md §4 C01, §3"),
 "C02": ("exhaustive enumeration of collection schedules (subsets of a run's allocation points: all 2^n for small n, all singles / pairs / triples / all / alternating otherwise) on the real VM with a quarantining collector, heap audit + operand audit + differential oracle",
         "For every template (one per allocating site and operand shape, including the host allocation API: insert_value, every init_* constructor, CaoLangTable::insert from a host function) and every allocating program of the statement, call, closure, table, stdlib and re-entry families, the run is repeated with a collection forced at each chosen subset of its allocation requests through the real allocator (natural trigger off). Swept objects are poisoned and kept, so any later use is defined and visible. After each instruction during which a collection ran, and at the end, nothing reachable from value stack, globals, frame closures, open-upvalue list or guarded objects may be swept; operands that were on top of the stack at dispatch may not be swept when the instruction completes; the observable outcome must equal the run without collections. Exhaustive bounded exploration is the right level: a rooting defect needs a collection at one specific allocation of one specific instruction, which the schedule enumeration hits by construction.",
         "At most 3 forced collections per run unless n is small enough for all subsets; memory safety is judged through the quarantine stand-in, not through a sanitizer; collections start only inside allocation requests.", "DESIGN.md §4 C02"),
 "C04": ("bounded-exhaustive enumeration of module trees / programs / host configurations in isolated worker processes with watchdogs; verdict = compile and run return",
         "Compile half: names x imports x positions, submodule depth 0..70, 16 card kinds nested up to depth 60 (thorough 120), locals 0..260, globals 0..64/600, arities x supplied arguments x parameter naming, closure nesting, 27 parent kinds x slot x 18 child classes (not restricted to well-scoped input). Run half: every C01 family (including the cases C01 does not compare) and 14 exhaustion programs x sizes x swept value-stack / call-stack sizes, memory limits and budgets, plus self-containing tables. A panic, abort, signal or watchdog expiry of the isolated worker is the violation; the dying worker is re-run in trace mode and resumed behind the crashing case so every crashing case of a unit is pinned.",
         "Only compiled well-scoped programs are run; stack size 0 is excluded (asserted by the constructor); cyclic tables in Eq/Hash/Ord are open findings.", "DESIGN.md §4 C04"),
 "C12": ("explicit-state BFS over operation histories of the real CaoHashMap (3 allocators) + exhaustive single-allocation-failure enumeration, BTreeMap oracle, drop ledger",
         "Every history of insert/remove/entry/get_mut/reserve/clear/clone (hinted forms included) up to the stated depth over an 8-key alphabet chosen with the real hasher (wrapping collision chains, home-bucket collisions, a key hashing to the reserved value 0) is executed on the real map; every observer is compared with a reference map in every distinct concrete state; every allocation index is made to fail once. Bounded-exhaustive is the right level: the defects of this structure are sequence defects (probe chains, growth steps, failed growth) that appear within a handful of operations.",
         "Bounded depth and an 8-key alphabet; values {1,2}; clone under allocation failure excluded (Clone cannot return an error).", "DESIGN.md §4 C12"),
 "C13": ("explicit-state BFS over operation histories of the real HandleTable for every initial capacity + insertion straight lines, BTreeMap oracle, drop ledger, hang watchdog",
         "Every history up to the stated depth over 8 handles (produced by the crate's Handle::from_u32 and chosen to collide and wrap under the masks 3..31) for initial capacities 0..8,16,default and both allocators, observers compared with a reference map in every distinct concrete state; lines of 40..200 insertions through insert/entry/mixed with all entries re-read after each; non-termination is caught by per-unit watchdogs in isolated worker processes.",
         "Bounded depth, 8 handles; allocation failures not injected (outside the statement for this table).", "DESIGN.md §4 C13"),
 "C14": ("explicit-state BFS to closure over operation histories of the real ValueStack / BoundedStack, Vec oracle, drop ledger",
         "The reachable concrete state space (full backing array incl. dead slots + count) of ValueStack for capacities 1..4 (thorough ..6) over values {nil,1,2} and of BoundedStack<drop-tracked> is enumerated to closure; every operation is applied in every state and compared with a Vec model, every observer is evaluated in every state. Closure means the claim is exhaustive for these capacities.",
         "Small capacities and a 3-value alphabet (the stacks never inspect values).", "DESIGN.md §4 C14"),
}

def main():
    commits = subprocess.run(["git", "-C", "/repo", "log", "--format=%h %s"], capture_output=True, text=True).stdout.splitlines()
    hook_commits = [c.split()[0] for c in commits if c.split(" ", 1)[1].startswith("verif-hooks:")]
    m = {
        "version": 1,
        "setup_cmd": "cd /verif/harness && CARGO_NET_OFFLINE=true cargo build --release --offline",
        "hooks": {
            "guard": "cargo feature `verif-hooks` of the cao-lang crate (cao-lang/Cargo.toml); all hook code is #[cfg(feature = \"verif-hooks\")]",
            "enable": "the harness crate /verif/harness/cvx depends on cao-lang by path (/repo/cao-lang) with features [\"serde\", \"verif-hooks\"]; every check command rebuilds it from /repo's working tree",
            "baseline_off_cmd": "cd /repo && cargo test --workspace --no-fail-fast --offline",
            "source_commits": hook_commits,
            "add_only": True,
        },
        "engines": [
            {"name": "cvx", "path": "/verif/harness", "serves_properties": sorted(CHECKS),
             "kind_free_text": "Rust harness (cvx-core: supervisor/worker isolation, explicit-state history BFS, program-family enumerators, reference interpreter, evidence/known-findings plumbing; cvx: drivers calling the real cao-lang API and hooks)"},
        ],
        "checks": [],
        "notes": "bin/check <ID> <tier> rebuilds the harness (path dependency on /repo/cao-lang, hooks feature on) and runs the supervisor; exit 0 held / 1 violation (VIOLATION lines) / 2 machinery error. Known findings: /verif/KNOWN_FINDINGS.txt.",
        "not_applicable": [],
    }
    for pid in ALL:
        if pid in CHECKS:
            tech, text, note, ref = CHECKS[pid]
            m["checks"].append({
                "property_id": pid,
                "quick_cmd": f"bin/check {pid} quick",
                "thorough_cmd": f"bin/check {pid} thorough",
                "evidence_file": f"/verif/evidence/{pid}.json",
                "replay_cmd_template": "harness/target/release/cvx replay {path}",
                "engine": "cvx",
                "level_claimed": {"category": "model_checking", "text": text + " Families, alphabets and bounds were extended after each round of seeded changes (DESIGN.md §10.6); the exact enumeration of the current build is the `rule` / `bound_completed` text the check writes into its evidence file on every run.", "design_ref": ref + ", §10"},
                "level_note": note,
                "technique": tech,
            })
        else:
            m["not_applicable"].append({"property_id": pid, "reason": "check not built yet (build in progress; DESIGN.md Appendix A.5 gives the order)"})
    json.dump(m, open("/verif/MANIFEST.json", "w"), indent=1)

main()
